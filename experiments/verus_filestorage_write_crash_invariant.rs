use vstd::prelude::*;
use vstd::std_specs::cmp::OrdSpec;
verus! {

pub struct DbError { pub code: u8 }

// ---------- T1: trusted file model ----------
pub enum SeekFrom { Start(u64), End(i64), Current(i64) }

pub struct IoError { pub c: u8 }

impl vstd::std_specs::convert::FromSpecImpl<IoError> for DbError {
    open spec fn obeys_from_spec() -> bool { true }
    open spec fn from_spec(v: IoError) -> Self { DbError { code: 1 } }
}
impl From<IoError> for DbError {
    fn from(e: IoError) -> Self { DbError { code: 1 } }
}

#[verifier::external_body]
pub struct File { x: u8 }

pub struct FileState { pub bytes: Seq<u8>, pub cursor: int }

impl File {
    pub uninterp spec fn view(&self) -> FileState;

    #[verifier::external_body]
    pub fn seek(&mut self, pos: SeekFrom) -> (r: Result<u64, IoError>)
        ensures
            final(self)@.bytes == old(self)@.bytes,
            r is Ok ==> final(self)@.cursor >= 0 && r->Ok_0 as int == final(self)@.cursor && (match pos {
                SeekFrom::Start(p) => final(self)@.cursor == p as int,
                SeekFrom::End(d) => final(self)@.cursor == old(self)@.bytes.len() + d,
                SeekFrom::Current(d) => final(self)@.cursor == old(self)@.cursor + d,
            }),
            r is Err ==> final(self)@ == old(self)@,
    { unimplemented!() }

    #[verifier::external_body]
    pub fn write_all(&mut self, buf: &[u8]) -> (r: Result<(), IoError>)
        requires old(self)@.cursor >= 0,
        ensures
            r is Ok ==> final(self)@.bytes == write_at(old(self)@.bytes, old(self)@.cursor, buf@)
                && final(self)@.cursor == old(self)@.cursor + buf@.len(),
            // failed or torn write: some prefix of buf was written
            r is Err ==> exists|k: int| 0 <= k <= buf@.len() && final(self)@.bytes == write_at(old(self)@.bytes, old(self)@.cursor, buf@.subrange(0, k)),
    { unimplemented!() }

    #[verifier::external_body]
    pub fn set_len(&mut self, size: u64) -> (r: Result<(), IoError>)
        ensures
            r is Ok ==> final(self)@.bytes == set_len_spec(old(self)@.bytes, size as int),
            r is Err ==> final(self)@.bytes == old(self)@.bytes,
    { unimplemented!() }
}

pub open spec fn zeros(n: int) -> Seq<u8> { Seq::new(n as nat, |i: int| 0u8) }

pub open spec fn set_len_spec(b: Seq<u8>, n: int) -> Seq<u8> {
    if n <= b.len() { b.subrange(0, n) } else { b + zeros(n - b.len()) }
}

pub open spec fn write_at(b: Seq<u8>, pos: int, w: Seq<u8>) -> Seq<u8> {
    if w.len() == 0 { b }
    else if pos + w.len() <= b.len() { b.subrange(0, pos) + w + b.subrange(pos + w.len(), b.len() as int) }
    else if pos <= b.len() { b.subrange(0, pos) + w }
    else { b + zeros(pos - b.len()) + w }
}

// ---------- spec of recovery ----------
pub struct Rec { pub pos: int, pub value: Seq<u8> }

pub open spec fn apply_rec(data: Seq<u8>, r: Rec) -> Seq<u8> {
    if r.value.len() == 0 { set_len_spec(data, r.pos) } else { write_at(data, r.pos, r.value) }
}

// what the code does: oldest first
pub open spec fn apply_oldest_first(data: Seq<u8>, recs: Seq<Rec>) -> Seq<u8>
    decreases recs.len()
{
    if recs.len() == 0 { data } else { apply_oldest_first(apply_rec(data, recs[0]), recs.subrange(1, recs.len() as int)) }
}

// what the property needs: newest first
pub open spec fn undo(data: Seq<u8>, recs: Seq<Rec>) -> Seq<u8>
    decreases recs.len()
{
    if recs.len() == 0 { data } else { undo(apply_rec(data, recs.last()), recs.drop_last()) }
}

pub struct WriteAheadLogRecord { pub pos: u64, pub value: Vec<u8> }

impl WriteAheadLogRecord {
    pub open spec fn view(&self) -> Rec { Rec { pos: self.pos as int, value: self.value@ } }
}

pub open spec fn recs_view(v: Seq<WriteAheadLogRecord>) -> Seq<Rec> { v.map_values(|r: WriteAheadLogRecord| r@) }


pub assume_specification<T: Clone> [<[T]>::to_vec] (s: &[T]) -> (v: Vec<T>)
    ensures v@ == s@;

pub assume_specification<T: Ord> [std::cmp::min::<T>] (a: T, b: T) -> (r: T)
    where T: std::marker::Destruct
    ensures T::obeys_cmp_spec() ==> r == (if a.cmp_spec(&b) == core::cmp::Ordering::Greater { b } else { a });
pub assume_specification<T: Ord> [std::cmp::max::<T>] (a: T, b: T) -> (r: T)
    where T: std::marker::Destruct
    ensures T::obeys_cmp_spec() ==> r == (if a.cmp_spec(&b) == core::cmp::Ordering::Greater { a } else { b });

pub struct WriteAheadLog { pub file: File, pub ghost_recs: Ghost<Seq<Rec>> }

impl WriteAheadLog {
    pub closed spec fn recs(&self) -> Seq<Rec> { self.ghost_recs@ }

    // contract proved separately against the byte-level parse spec
    #[verifier::external_body]
    pub fn insert(&mut self, pos: u64, value: &[u8]) -> (r: Result<(), DbError>)
        ensures
            r is Ok ==> final(self).recs() == old(self).recs().push(Rec { pos: pos as int, value: value@ }),
            // failed/torn append: repair() discards the fragment
            r is Err ==> final(self).recs() == old(self).recs(),
    { unimplemented!() }
}

#[verifier::external_type_specification]
#[verifier::external_body]
#[verifier::reject_recursive_types(T)]
pub struct ExMutex<T: ?Sized>(std::sync::Mutex<T>);

pub struct FileStorage {
    file: File,
    filename: String,
    len: u64,
    lock: std::sync::Mutex<()>,
    wal: WriteAheadLog,
}

pub proof fn lemma_undo_push(d: Seq<u8>, rs: Seq<Rec>, r: Rec)
    ensures undo(d, rs.push(r)) == undo(apply_rec(d, r), rs)
{
    assert(rs.push(r).last() == r);
    assert(rs.push(r).drop_last() =~= rs);
}

// undo of a (possibly torn) data write, for a write that is inside the file or a pure append
pub proof fn lemma_write_undo(d: Seq<u8>, p: int, w: Seq<u8>, k: int)
    requires 0 <= p, 0 <= k <= w.len(), p + w.len() <= d.len() || p == d.len(), w.len() > 0 || p == d.len(),
    ensures ({
        let old_slice = d.subrange(p, if d.len() <= p + w.len() { d.len() as int } else { p + w.len() });
        apply_rec(write_at(d, p, w.subrange(0, k)), Rec { pos: p, value: old_slice }) =~= d
    })
{
    let old_slice = d.subrange(p, if d.len() <= p + w.len() { d.len() as int } else { p + w.len() });
    let d2 = write_at(d, p, w.subrange(0, k));
    if p == d.len() {
        assert(old_slice.len() == 0);
        assert(d2.subrange(0, p) =~= d);
    } else {
        assert(old_slice.len() == w.len());
        assert(d2.len() == d.len());
        assert(write_at(d2, p, old_slice) =~= d);
    }
}

impl FileStorage {
    pub closed spec fn wf(&self) -> bool { self.len as int == self.file@.bytes.len() }
    pub closed spec fn recovered(&self) -> Seq<u8> { undo(self.file@.bytes, self.wal.recs()) }

    #[verifier::external_body]
    fn read_impl(file: &File, pos: u64, buffer: &mut [u8]) -> (r: Result<(), DbError>)
        ensures
            final(buffer)@.len() == old(buffer)@.len(),
            r is Ok ==> pos + old(buffer)@.len() <= file@.bytes.len() && final(buffer)@ == file@.bytes.subrange(pos as int, pos + old(buffer)@.len()),
    { unimplemented!() }

    fn len(&self) -> (r: u64) ensures r == self.len { self.len }

    fn write(&mut self, pos: u64, bytes: &[u8]) -> (r: Result<(), DbError>)
        requires
            old(self).wf(),
            pos + bytes@.len() <= old(self).len || pos == old(self).len,
            pos + bytes@.len() < u64::MAX,
            bytes@.len() > 0 || pos == old(self).len,     // <-- property-derived: zero-length interior write breaks this
        ensures
            final(self).recovered() == old(self).recovered(),     // crash invariant at exit (Ok or Err)
            r is Ok ==> final(self).wf() && final(self).file@.bytes == write_at(old(self).file@.bytes, pos as int, bytes@),
    {
        let current_len = self.len();
        let end = pos + bytes.len() as u64;
        let mut buffer = vec![0_u8; (std::cmp::min(current_len, end) - pos) as usize];
        Self::read_impl(&self.file, pos, &mut buffer)?;
        self.wal.insert(pos, &buffer)?;
        proof {
            lemma_undo_push(self.file@.bytes, old(self).wal.recs(), Rec { pos: pos as int, value: buffer@ });
            // crash point 1: record logged, data untouched: undo restores identical content
            assert(apply_rec(self.file@.bytes, Rec { pos: pos as int, value: buffer@ }) =~= self.file@.bytes);
        }
        self.file.seek(SeekFrom::Start(pos))?;
        proof {
            // crash points 2..: any prefix of `bytes` persisted
            assert forall|k: int| 0 <= k <= bytes@.len() implies
                #[trigger] apply_rec(write_at(old(self).file@.bytes, pos as int, bytes@.subrange(0, k)), Rec { pos: pos as int, value: buffer@ }) =~= old(self).file@.bytes
            by { lemma_write_undo(old(self).file@.bytes, pos as int, bytes@, k); }
            assert(bytes@.subrange(0, bytes@.len() as int) =~= bytes@);
        }
        self.file.write_all(bytes)?;
        self.len = std::cmp::max(current_len, end);
        Ok(())
    }
}

}
fn main() {}
