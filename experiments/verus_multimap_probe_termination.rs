use vstd::prelude::*;
use std::marker::PhantomData;
verus! {

pub struct DbError { pub code: u8 }
pub struct Storage<D> { d: D }
pub trait StorageData: Sized {}

#[derive(Clone, PartialEq, Eq)]
pub enum MapValueState { Empty, Deleted, Valid }

pub trait StableHash { fn stable_hash(&self) -> u64; }

pub trait MapData<K, T, D: StorageData> {
    spec fn states(&self) -> Seq<MapValueState>;
    spec fn mlen(&self) -> nat;
    fn capacity(&self) -> (r: u64) ensures r == self.states().len();
    fn len(&self) -> (r: u64) ensures r == self.mlen();
    fn state(&self, storage: &Storage<D>, index: u64) -> (r: Result<MapValueState, DbError>)
        ensures r is Ok ==> index < self.states().len() && r->Ok_0 == self.states()[index as int];
    fn key(&self, storage: &Storage<D>, index: u64) -> (r: Result<K, DbError>);
    fn value(&self, storage: &Storage<D>, index: u64) -> (r: Result<T, DbError>);
    fn set_value(&mut self, storage: &mut Storage<D>, index: u64, value: &T) -> (r: Result<(), DbError>)
        ensures final(self).states() == old(self).states(), final(self).mlen() == old(self).mlen();
    fn transaction(&mut self, storage: &mut Storage<D>) -> (r: u64)
        ensures final(self).states() == old(self).states(), final(self).mlen() == old(self).mlen();
}

pub struct MultiMapImpl<K, T, D, Data>
where
    D: StorageData,
    Data: MapData<K, T, D>,
{
    pub data: Data,
    pub phantom_marker: PhantomData<(K, T, D)>,
}

pub open spec fn has_empty(s: Seq<MapValueState>) -> bool {
    exists|i: int| 0 <= i < s.len() && s[i] == MapValueState::Empty
}

impl<K, T, D, Data> MultiMapImpl<K, T, D, Data>
where
    K: PartialEq + StableHash,
    T: PartialEq,
    D: StorageData,
    Data: MapData<K, T, D>,
{
    pub fn capacity(&self) -> (r: u64) ensures r == self.data.states().len() {
        self.data.capacity()
    }

    fn next_pos(&self, pos: u64) -> (r: u64)
        requires pos < self.data.states().len()
        ensures r == (if pos == self.data.states().len() - 1 { 0 } else { pos + 1 })
    {
        if pos == self.capacity() - 1 {
            0
        } else {
            pos + 1
        }
    }

    pub fn probe<P: Fn(&T) -> bool>(
        &mut self,
        storage: &mut Storage<D>,
        key: &K,
        predicate: P,
        new_value: &T,
    ) -> (r: Result<Option<T>, DbError>)
        requires old(self).data.states().len() > 0, has_empty(old(self).data.states()),
            forall|t: &T| predicate.requires((t,)),
    {
        let id = self.data.transaction(storage);
        let hash = key.stable_hash();
        let mut pos = hash % self.capacity();
        let mut free_pos = None;
        let mut ret = None;

        let ghost e: int = choose|i: int| 0 <= i < self.data.states().len() && self.data.states()[i] == MapValueState::Empty;
        let ghost cap: int = self.data.states().len() as int;
        loop
            invariant pos < self.data.states().len(), cap == self.data.states().len(),
              0 <= e < cap, self.data.states()[e] == MapValueState::Empty,
              forall|t: &T| predicate.requires((t,)),
            decreases (if e >= pos as int { e - pos as int } else { e + cap - pos as int })
        {
            match self.data.state(storage, pos)? {
                MapValueState::Empty => {
                    free_pos = Some(pos);
                    break;
                }
                MapValueState::Deleted => {
                    if free_pos.is_none() {
                        free_pos = Some(pos);
                    }
                }
                MapValueState::Valid if self.data.key(storage, pos)? == *key => {
                    let old_value = self.data.value(storage, pos)?;
                    if predicate(&old_value) {
                        self.data.set_value(storage, pos, new_value)?;
                        ret = Some(old_value);
                        free_pos = None;
                        break;
                    }
                }
                MapValueState::Valid => {}
            }

            pos = self.next_pos(pos)
        }
        Ok(ret)
    }
}

}
fn main() {}
