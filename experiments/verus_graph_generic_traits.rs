use vstd::prelude::*;
use std::marker::PhantomData;
verus! {

pub struct DbError { pub code: u8 }

#[derive(Clone, Copy, PartialEq, Eq)]
pub struct GraphIndex(pub i64);

impl GraphIndex {
    pub fn is_edge(&self) -> (r: bool) ensures r == (self.0 < 0) {
        self.0 < 0
    }
    pub fn is_node(&self) -> (r: bool) ensures r == (0 < self.0) {
        0 < self.0
    }
    pub fn is_valid(&self) -> (r: bool) ensures r == (self.0 != 0) {
        self.0 != 0
    }
    pub open spec fn spec_as_u64(&self) -> u64 {
        if self.0 < 0 { (-self.0) as u64 } else { self.0 as u64 }
    }
    pub fn as_u64(&self) -> (r: u64)
        requires self.0 != i64::MIN
        ensures r == self.spec_as_u64()
    {
        if self.is_edge() {
            (-self.0) as u64
        } else {
            self.0 as u64
        }
    }
}

impl vstd::std_specs::convert::FromSpecImpl<i64> for GraphIndex {
    open spec fn obeys_from_spec() -> bool { true }
    open spec fn from_spec(v: i64) -> Self { GraphIndex(v) }
}
impl From<i64> for GraphIndex {
    fn from(index: i64) -> Self {
        Self(index)
    }
}

pub struct Storage<D> { d: D }

pub assume_specification<T, E> [std::result::Result::<T, E>::unwrap_or] (r: std::result::Result<T, E>, d: T) -> (o: T)
    where E: std::marker::Destruct, T: std::marker::Destruct,
    ensures o == (match r { Ok(v) => v, Err(_) => d });

pub assume_specification<T, E> [std::result::Result::<T, E>::unwrap_or_default] (r: std::result::Result<T, E>) -> (o: T)
    where E: std::marker::Destruct, T: std::default::Default + std::marker::Destruct,
    ensures r is Ok ==> o == r->Ok_0, r is Err ==> call_ensures(T::default, (), o);


pub struct Arrays {
    pub from: Seq<i64>,
    pub to: Seq<i64>,
    pub from_meta: Seq<i64>,
    pub to_meta: Seq<i64>,
}

pub trait StorageData: Sized {}

pub trait GraphData<D: StorageData> {
    spec fn view(&self) -> Arrays;
    fn capacity(&self) -> (r: Result<u64, DbError>)
        ensures r is Ok ==> r->Ok_0 == self.view().from.len();
    fn from_meta(&self, storage: &Storage<D>, index: GraphIndex) -> (r: Result<i64, DbError>)
        ensures r is Ok ==> index.spec_as_u64() < self.view().from_meta.len() && r->Ok_0 == self.view().from_meta[index.spec_as_u64() as int];
    fn set_from_meta(&mut self, storage: &mut Storage<D>, index: GraphIndex, value: i64) -> (r: Result<(), DbError>)
        ensures r is Ok ==> index.spec_as_u64() < old(self).view().from_meta.len()
           && final(self).view() == (Arrays { from_meta: old(self).view().from_meta.update(index.spec_as_u64() as int, value), ..old(self).view() });
}

pub struct GraphImpl<D, Data>
where
    Data: GraphData<D>,
    D: StorageData,
{
    data: Data,
    storage: PhantomData<D>,
}

impl<D, Data> GraphImpl<D, Data>
where
    Data: GraphData<D>,
    D: StorageData,
{
    fn is_removed_index(&self, storage: &Storage<D>, index: GraphIndex) -> (r: Result<bool, DbError>)
      ensures r is Ok ==> index.spec_as_u64() < self.data.view().from_meta.len() && r->Ok_0 == (self.data.view().from_meta[index.spec_as_u64() as int] < 0)
    {
        Ok(self.data.from_meta(storage, index)? < 0)
    }

    fn is_valid_edge(&self, storage: &Storage<D>, index: GraphIndex) -> (r: Result<bool, DbError>)
    {
        Ok(self.data.from_meta(storage, index)? < 0)
    }

    fn next_element(&self, storage: &Storage<D>, index: GraphIndex) -> (r: Option<GraphIndex>)
        requires index.0 != i64::MIN, self.data.view().from.len() < i64::MAX, self.data.view().from.len() == self.data.view().from_meta.len(),
        ensures r is Some ==> r->Some_0.spec_as_u64() > index.spec_as_u64() && r->Some_0.spec_as_u64() < self.data.view().from_meta.len()
            && self.data.view().from_meta[r->Some_0.spec_as_u64() as int] >= 0
    {
        for i in (index.as_u64() + 1) as i64..(self.data.capacity().unwrap_or_default() as i64)
            invariant self.data.view().from.len() < i64::MAX,
        {
            if !self
                .is_removed_index(storage, GraphIndex::from(i))
                .unwrap_or(true)
            {
                if self
                    .is_valid_edge(storage, GraphIndex::from(-i))
                    .unwrap_or_default()
                {
                    return Some(GraphIndex::from(-i));
                } else {
                    return Some(GraphIndex::from(i));
                }
            }
        }

        None
    }

    fn is_valid_index(&self, storage: &Storage<D>, index: GraphIndex) -> (r: Result<bool, DbError>)
      requires index.0 != i64::MIN
    {
        Ok(index.is_valid()
            && index.as_u64() < self.data.capacity()?
            && !self.is_removed_index(storage, index)?)
    }
}

}
fn main() {}
