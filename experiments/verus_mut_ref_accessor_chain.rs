use vstd::prelude::*;
use vstd::multiset::Multiset;
verus! {
pub struct DbError { pub c: u8 }
#[derive(Clone, Copy, PartialEq, Eq)]
pub struct DbId(pub i64);
pub struct Storage { pub x: u8 }
#[derive(Clone, PartialEq, Eq)]
pub struct DbValue { pub v: u64 }
pub struct DbKeyValue { pub key: DbValue, pub value: DbValue }

#[verifier::external_body]
pub struct Ids { x: u8 }
impl Ids {
    pub uninterp spec fn view(&self) -> Multiset<(DbValue, DbId)>;
    #[verifier::external_body]
    pub fn insert(&mut self, storage: &mut Storage, key: &DbValue, value: &DbId) -> (r: Result<(), DbError>)
        ensures r is Ok ==> final(self)@ == old(self)@.insert((*key, *value))
    { unimplemented!() }
}
pub struct DbIndex { pub key: DbValue, pub ids: Ids }
impl DbIndex {
    pub fn ids_mut(&mut self) -> (r: &mut Ids)
        ensures *r == old(self).ids, final(self).key == old(self).key, final(self).ids == *final(r)
    { &mut self.ids }
    pub fn key(&self) -> &DbValue { &self.key }
}
pub struct DbIndexes { pub indexes: Vec<DbIndex> }
impl DbIndexes {
    #[verifier::external_body]
    pub fn index_mut(&mut self, key: &DbValue) -> (r: Option<&mut DbIndex>)
    { unimplemented!() }
}
pub enum Command { RemoveKeyValue { id: DbId, key_value: DbKeyValue } }
pub struct DbImpl { pub storage: Storage, pub indexes: DbIndexes, pub undo_stack: Vec<Command> }
impl DbImpl {
    pub fn insert_key_value(&mut self, db_id: DbId, key_value: &DbKeyValue) -> Result<(), DbError> {
        if let Some(index) = self.indexes.index_mut(&key_value.key) {
            index
                .ids_mut()
                .insert(&mut self.storage, &key_value.value, &db_id)?;
        }
        Ok(())
    }
}
}
fn main() {}
