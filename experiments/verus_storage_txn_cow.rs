use vstd::prelude::*;
use std::borrow::Cow;
verus! {

pub struct DbError { pub code: u8 }
pub enum DbErrorType { NotAllowed, NotFound, OutOfBounds }
impl DbError {
    #[verifier::external_body]
    pub fn storage(ty: DbErrorType, description: String) -> DbError { DbError { code: 0 } }
}
#[verifier::external_body]
pub fn err_msg() -> String { String::new() }

pub type StorageSlice<'a> = Cow<'a, [u8]>;

pub assume_specification<T: Clone> [<[T]>::to_vec] (s: &[T]) -> (v: Vec<T>)
    ensures v@ == s@;

pub const STORAGE_RECORD_SIZE: u64 = 16;

#[derive(Clone, Copy)]
pub struct StorageRecord { pub index: u64, pub pos: u64, pub size: u64 }
impl StorageRecord {
    pub fn value_start(&self) -> (r: u64) requires self.pos < 0x4000_0000_0000_0000 ensures r == self.pos + 16 {
        self.pos + STORAGE_RECORD_SIZE
    }
    pub fn end(&self) -> (r: u64) requires self.pos < 0x4000_0000_0000_0000, self.size < 0x4000_0000_0000_0000 ensures r == self.pos + 16 + self.size {
        self.value_start() + self.size
    }
}

pub trait StorageData: Sized {
    spec fn view(&self) -> Seq<u8>;
    fn len(&self) -> (r: u64) ensures r == self.view().len();
    fn read(&self, pos: u64, value_len: u64) -> (r: Result<StorageSlice<'_>, DbError>)
        requires pos + value_len <= self.view().len();
    fn write(&mut self, pos: u64, bytes: &[u8]) -> (r: Result<(), DbError>)
        requires pos + bytes@.len() <= old(self).view().len() || pos == old(self).view().len();
    fn flush(&mut self) -> (r: Result<(), DbError>)
        ensures final(self).view() == old(self).view();
}

#[verifier::external_body]
pub struct StorageRecords { x: u8 }
impl StorageRecords {
    #[verifier::external_body]
    pub fn record(&self, index: u64) -> (r: Result<StorageRecord, DbError>) { unimplemented!() }
}

pub struct Storage<D: StorageData> {
    pub data: D,
    pub records: StorageRecords,
    pub transactions: u64,
    pub version: u64,
}

impl<D: StorageData> Storage<D> {
    pub fn commit(&mut self, id: u64) -> (r: Result<(), DbError>)
        ensures r is Ok ==> old(self).transactions == id && (id != 0 ==> final(self).transactions == id - 1),
                r is Err ==> final(self).transactions == old(self).transactions,
    {
        self.end_transaction(id)
    }

    pub fn transaction(&mut self) -> (r: u64)
        requires old(self).transactions < u64::MAX
        ensures r == old(self).transactions + 1, final(self).transactions == r, final(self).data == old(self).data,
    {
        self.begin_transaction()
    }

    fn begin_transaction(&mut self) -> (r: u64)
        requires old(self).transactions < u64::MAX
        ensures r == old(self).transactions + 1, final(self).transactions == r, final(self).data == old(self).data,
    {
        self.transactions += 1;
        self.transactions
    }

    fn end_transaction(&mut self, id: u64) -> (r: Result<(), DbError>)
        ensures r is Ok ==> old(self).transactions == id && (id != 0 ==> final(self).transactions == id - 1),
                r is Err ==> final(self).transactions == old(self).transactions || (old(self).transactions == id && id == 1 && final(self).transactions == 0),
    {
        if self.transactions != id {
            return Err(DbError::storage(
                DbErrorType::NotAllowed,
                err_msg(),
            ));
        }

        if self.transactions != 0 {
            self.transactions -= 1;

            if self.transactions == 0 {
                self.data.flush()?;
            }
        }

        Ok(())
    }

    fn record(&self, index: u64) -> (r: Result<StorageRecord, DbError>) {
        self.records.record(index)
    }

    fn read_value(&'_ mut self, record: &StorageRecord) -> (r: Result<StorageSlice<'_>, DbError>)
        requires record.pos + 16 + record.size <= old(self).data.view().len(), record.pos < 0x4000_0000_0000_0000
    {
        self.data.read(record.value_start(), record.size)
    }

    fn to_vec_test(&mut self, record: &StorageRecord) -> (r: Result<Vec<u8>, DbError>)
        requires record.pos + 16 + record.size <= old(self).data.view().len(), record.pos < 0x4000_0000_0000_0000
    {
        let bytes = self.read_value(record)?.to_vec();
        Ok(bytes)
    }
}

}
fn main() {}
