use vstd::prelude::*;
verus! {
#[derive(Debug, Clone, Copy, Default)]
pub struct StorageRecord {
    pub index: u64,
    pub pos: u64,
    pub size: u64,
}
#[derive(Clone, Copy, Debug, Default, Eq, Ord, Hash, PartialEq, PartialOrd)]
pub struct GraphIndex(pub i64);

#[derive(Debug, Copy, Clone, Eq, PartialEq)]
pub enum SearchControl {
    Continue(bool),
    Finish(bool),
    Stop(bool),
}
impl SearchControl {
    pub fn flip(&mut self) {
        match self {
            SearchControl::Continue(v) | SearchControl::Finish(v) | SearchControl::Stop(v) => {
                *v = !*v;
            }
        };
    }
    pub fn is_true(&self) -> bool {
        match self {
            SearchControl::Continue(v) | SearchControl::Finish(v) | SearchControl::Stop(v) => *v,
        }
    }
}
fn t(a: GraphIndex, b: GraphIndex) -> bool { a == b }
fn d() -> StorageRecord { StorageRecord::default() }
}
fn main() {}
