use vstd::prelude::*;
verus! {
pub struct DbError { pub c: u8 }
pub struct MemoryStorage { buffer: Vec<u8>, name: String }
impl MemoryStorage {
    fn len(&self) -> u64 { self.buffer.len() as u64 }
    fn resize(&mut self, new_len: u64) -> Result<(), DbError> {
        self.buffer.resize(new_len as usize, 0);
        Ok(())
    }
    fn write(&mut self, pos: u64, bytes: &[u8]) -> Result<(), DbError> {
        let current_len = self.len();
        let end = pos + bytes.len() as u64;

        if end < current_len {
            self.buffer[pos as usize..end as usize].copy_from_slice(bytes);
        } else {
            self.buffer.resize(pos as usize, 0);
            self.buffer.extend_from_slice(bytes);
        }

        Ok(())
    }
}
}
fn main() {}
