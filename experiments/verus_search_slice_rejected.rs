use vstd::prelude::*;
verus! {
#[derive(Clone, Copy, PartialEq, Eq)]
pub struct DbId(pub i64);
pub struct DbError { pub c: u8 }

pub assume_specification<T: Clone> [<[T]>::to_vec] (s: &[T]) -> (v: Vec<T>)
    ensures v@.len() == s@.len();

pub struct Q { pub limit: u64, pub offset: u64 }
impl Q {
    fn slice(&self, mut ids: Vec<DbId>) -> Result<Vec<DbId>, DbError> {
        Ok(match (self.limit, self.offset) {
            (0, 0) => ids,
            (0, _) => ids[self.offset as usize..].to_vec(),
            (_, 0) => {
                ids.truncate(self.limit as usize);
                ids
            }
            (_, _) => ids[self.offset as usize..(self.offset + self.limit) as usize].to_vec(),
        })
    }
}

fn zip_test(ids: &Vec<DbId>, aliases: &Vec<String>) -> (r: u64) {
    let mut n = 0u64;
    for (id, alias) in ids.iter().zip(aliases) {
        if alias.is_empty() { return 0; }
        if n < 100 { n += 1; }
    }
    n
}

}
fn main() {}
