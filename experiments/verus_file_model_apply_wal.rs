use vstd::prelude::*;
verus! {

pub struct DbError { pub code: u8 }

// ---------- T1: trusted file model ----------
pub enum SeekFrom { Start(u64), End(i64), Current(i64) }

pub struct IoError { pub c: u8 }

impl vstd::std_specs::convert::FromSpecImpl<IoError> for DbError {
    open spec fn obeys_from_spec() -> bool { true }
    open spec fn from_spec(v: IoError) -> Self { DbError { code: 1 } }
}
impl From<IoError> for DbError {
    fn from(e: IoError) -> Self { DbError { code: 1 } }
}

#[verifier::external_body]
pub struct File { x: u8 }

pub struct FileState { pub bytes: Seq<u8>, pub cursor: int }

impl File {
    pub uninterp spec fn view(&self) -> FileState;

    #[verifier::external_body]
    pub fn seek(&mut self, pos: SeekFrom) -> (r: Result<u64, IoError>)
        ensures
            final(self)@.bytes == old(self)@.bytes,
            r is Ok ==> final(self)@.cursor >= 0 && r->Ok_0 as int == final(self)@.cursor && (match pos {
                SeekFrom::Start(p) => final(self)@.cursor == p as int,
                SeekFrom::End(d) => final(self)@.cursor == old(self)@.bytes.len() + d,
                SeekFrom::Current(d) => final(self)@.cursor == old(self)@.cursor + d,
            }),
            r is Err ==> final(self)@ == old(self)@,
    { unimplemented!() }

    #[verifier::external_body]
    pub fn write_all(&mut self, buf: &[u8]) -> (r: Result<(), IoError>)
        requires old(self)@.cursor >= 0,
        ensures
            r is Ok ==> final(self)@.bytes == write_at(old(self)@.bytes, old(self)@.cursor, buf@)
                && final(self)@.cursor == old(self)@.cursor + buf@.len(),
            // failed or torn write: some prefix of buf was written
            r is Err ==> exists|k: int| 0 <= k <= buf@.len() && final(self)@.bytes == write_at(old(self)@.bytes, old(self)@.cursor, buf@.subrange(0, k)),
    { unimplemented!() }

    #[verifier::external_body]
    pub fn set_len(&mut self, size: u64) -> (r: Result<(), IoError>)
        ensures
            r is Ok ==> final(self)@.bytes == set_len_spec(old(self)@.bytes, size as int),
            r is Err ==> final(self)@.bytes == old(self)@.bytes,
    { unimplemented!() }
}

pub open spec fn zeros(n: int) -> Seq<u8> { Seq::new(n as nat, |i: int| 0u8) }

pub open spec fn set_len_spec(b: Seq<u8>, n: int) -> Seq<u8> {
    if n <= b.len() { b.subrange(0, n) } else { b + zeros(n - b.len()) }
}

pub open spec fn write_at(b: Seq<u8>, pos: int, w: Seq<u8>) -> Seq<u8> {
    if w.len() == 0 { b }
    else if pos + w.len() <= b.len() { b.subrange(0, pos) + w + b.subrange(pos + w.len(), b.len() as int) }
    else if pos <= b.len() { b.subrange(0, pos) + w }
    else { b + zeros(pos - b.len()) + w }
}

// ---------- spec of recovery ----------
pub struct Rec { pub pos: int, pub value: Seq<u8> }

pub open spec fn apply_rec(data: Seq<u8>, r: Rec) -> Seq<u8> {
    if r.value.len() == 0 { set_len_spec(data, r.pos) } else { write_at(data, r.pos, r.value) }
}

// what the code does: oldest first
pub open spec fn apply_oldest_first(data: Seq<u8>, recs: Seq<Rec>) -> Seq<u8>
    decreases recs.len()
{
    if recs.len() == 0 { data } else { apply_oldest_first(apply_rec(data, recs[0]), recs.subrange(1, recs.len() as int)) }
}

// what the property needs: newest first
pub open spec fn undo(data: Seq<u8>, recs: Seq<Rec>) -> Seq<u8>
    decreases recs.len()
{
    if recs.len() == 0 { data } else { undo(apply_rec(data, recs.last()), recs.drop_last()) }
}

pub struct WriteAheadLogRecord { pub pos: u64, pub value: Vec<u8> }

impl WriteAheadLogRecord {
    pub open spec fn view(&self) -> Rec { Rec { pos: self.pos as int, value: self.value@ } }
}

pub open spec fn recs_view(v: Seq<WriteAheadLogRecord>) -> Seq<Rec> { v.map_values(|r: WriteAheadLogRecord| r@) }

pub struct WriteAheadLog { pub file: File }

impl WriteAheadLog {
    #[verifier::external_body]
    pub fn records(&mut self) -> (r: Result<Vec<WriteAheadLogRecord>, DbError>)
        ensures final(self).file@.bytes == old(self).file@.bytes,
    { unimplemented!() }
    #[verifier::external_body]
    pub fn clear(&mut self) -> (r: Result<(), DbError>)
        ensures r is Ok ==> final(self).file@.bytes.len() == 0
    { unimplemented!() }
}

pub proof fn lemma_oldest_first_step(data: Seq<u8>, recs: Seq<Rec>, i: int)
    requires 0 <= i < recs.len()
    ensures apply_oldest_first(data, recs.subrange(0, i + 1)) == apply_rec(apply_oldest_first(data, recs.subrange(0, i)), recs[i])
    decreases i
{
    if i == 0 {
        assert(recs.subrange(0, 1).subrange(1, 1) =~= Seq::<Rec>::empty());
        assert(recs.subrange(0, 0) =~= Seq::<Rec>::empty());
    } else {
        let r1 = recs.subrange(0, i + 1);
        assert(r1.subrange(1, r1.len() as int) =~= recs.subrange(1, recs.len() as int).subrange(0, i));
        let r0 = recs.subrange(0, i);
        assert(r0.subrange(1, r0.len() as int) =~= recs.subrange(1, recs.len() as int).subrange(0, i - 1));
        lemma_oldest_first_step(apply_rec(data, recs[0]), recs.subrange(1, recs.len() as int), i - 1);
    }
}

// ---------- extracted: FileStorage::apply_wal_record (verbatim) ----------
fn apply_wal_record(file: &mut File, record: WriteAheadLogRecord) -> (r: Result<(), DbError>)
    ensures r is Ok ==> final(file)@.bytes == apply_rec(old(file)@.bytes, record@)
{
    if record.value.is_empty() {
        file.set_len(record.pos)?;
    } else {
        file.seek(SeekFrom::Start(record.pos))?;
        file.write_all(&record.value)?;
    }

    Ok(())
}


// ---------- extracted: FileStorage::apply_wal (verbatim) ----------
fn apply_wal(file: &mut File, wal: &mut WriteAheadLog) -> (r: Result<(), DbError>)
{
    for record in wal.records()? {
        apply_wal_record(file, record)?;
    }

    wal.clear()
}

}
fn main() {}
