use vstd::prelude::*;
verus! {
pub struct DbError { pub c: u8 }
#[derive(Clone, Copy, PartialEq, Eq)]
pub struct GraphIndex(pub i64);
#[derive(Debug, Copy, Clone, Eq, PartialEq)]
pub enum SearchControl { Continue(bool), Finish(bool), Stop(bool) }
pub enum QueryConditionLogic { And, Or }
pub enum QueryConditionModifier { None, Beyond, Not, NotBeyond }
pub struct QueryConditionData { pub x: u8 }
pub struct QueryCondition { pub logic: QueryConditionLogic, pub modifier: QueryConditionModifier, pub data: QueryConditionData }

pub open spec fn val(c: SearchControl) -> bool { match c { SearchControl::Continue(v) => v, SearchControl::Finish(v) => v, SearchControl::Stop(v) => v } }

impl SearchControl {
    #[verifier::external_body]
    pub fn flip(&mut self)
        ensures val(*final(self)) == !val(*old(self)),
            (*old(self) is Continue) == (*final(self) is Continue), (*old(self) is Stop) == (*final(self) is Stop)
    { unimplemented!() }
    pub fn is_true(&self) -> (r: bool) ensures r == val(*self) {
        match self {
            SearchControl::Continue(v) | SearchControl::Finish(v) | SearchControl::Stop(v) => *v,
        }
    }
    pub fn and(self, other: SearchControl) -> SearchControl {
        use SearchControl::Continue;
        use SearchControl::Finish;
        use SearchControl::Stop;

        match (self, other) {
            (Continue(left), Continue(right)) => Continue(left && right),
            (Continue(left), Finish(right)) => Finish(left && right),
            (Continue(left), Stop(right)) => Stop(left && right),
            (Finish(left), Continue(right)) => Finish(left && right),
            (Finish(left), Finish(right)) => Finish(left && right),
            (Finish(left), Stop(right)) => Finish(left && right),
            (Stop(left), Continue(right)) => Stop(left && right),
            (Stop(left), Finish(right)) => Finish(left && right),
            (Stop(left), Stop(right)) => Stop(left && right),
        }
    }
    #[verifier::external_body]
    pub fn or(self, other: SearchControl) -> SearchControl { unimplemented!() }
}

pub struct Db { pub x: u8 }
impl Db {
    #[verifier::external_body]
    pub fn evaluate_condition(&self, index: GraphIndex, distance: u64, condition: &QueryConditionData) -> Result<SearchControl, DbError> { unimplemented!() }

    pub fn evaluate_conditions(
        &self,
        index: GraphIndex,
        distance: u64,
        conditions: &[QueryCondition],
    ) -> Result<SearchControl, DbError> {
        let mut result = SearchControl::Continue(true);

        for condition in conditions {
            let mut control = self.evaluate_condition(index, distance, &condition.data)?;

            match condition.modifier {
                QueryConditionModifier::Beyond => {
                    if control.is_true() || distance == 0 {
                        control = SearchControl::Continue(result.is_true());
                    } else {
                        control = SearchControl::Stop(result.is_true());
                    }
                }
                QueryConditionModifier::Not => control.flip(),
                QueryConditionModifier::NotBeyond => {
                    if control.is_true() {
                        control = SearchControl::Stop(result.is_true());
                    } else {
                        control = SearchControl::Continue(result.is_true());
                    }
                }
                _ => {}
            };

            result = match condition.logic {
                QueryConditionLogic::And => result.and(control),
                QueryConditionLogic::Or => result.or(control),
            };
        }

        Ok(result)
    }
}
}
fn main() {}
