use vstd::prelude::*;
verus! {

pub struct DbError { pub code: u8 }
#[derive(Clone, Copy, PartialEq, Eq)]
pub struct DbId(pub i64);
pub struct Storage<D> { d: D }
pub trait StorageData: Sized {}

pub enum Command {
    InsertAlias { id: DbId, alias: String },
    InsertNode,
    RemoveAlias { alias: String },
    ReplaceKeyValue { id: DbId, n: u64 },
}

#[verifier::external_body]
#[verifier::reject_recursive_types(D)]
pub struct Aliases<D> { d: std::marker::PhantomData<D> }

impl<D: StorageData> Aliases<D> {
    pub uninterp spec fn view(&self) -> Map<Seq<char>, DbId>;
    #[verifier::external_body]
    pub fn key(&self, storage: &Storage<D>, value: &DbId) -> (r: Result<Option<String>, DbError>)
        ensures r is Ok ==> (match r->Ok_0 { Some(k) => self.view().contains_key(k@) && self.view()[k@] == *value, None => forall|k: Seq<char>| self.view().contains_key(k) ==> self.view()[k] != *value })
    { unimplemented!() }
    #[verifier::external_body]
    pub fn remove_key(&mut self, storage: &mut Storage<D>, key: &String) -> (r: Result<(), DbError>)
        ensures r is Ok ==> final(self).view() == old(self).view().remove(key@)
    { unimplemented!() }
    #[verifier::external_body]
    pub fn insert(&mut self, storage: &mut Storage<D>, key: &String, value: &DbId) -> (r: Result<(), DbError>)
    { unimplemented!() }
}

#[verifier::reject_recursive_types(Store)]
pub struct DbImpl<Store: StorageData> {
    storage: Storage<Store>,
    aliases: Aliases<Store>,
    undo_stack: Vec<Command>,
}

impl<Store: StorageData> DbImpl<Store> {
    pub(crate) fn insert_alias(&mut self, db_id: DbId, alias: &String) -> Result<(), DbError> {
        if let Some(old_alias) = self.aliases.key(&self.storage, &db_id)? {
            self.undo_stack.push(Command::InsertAlias {
                id: db_id,
                alias: old_alias.clone(),
            });
            self.aliases.remove_key(&mut self.storage, &old_alias)?;
            self.aliases.remove_key(&mut self.storage, &old_alias)?;
        }

        self.undo_stack.push(Command::RemoveAlias {
            alias: alias.clone(),
        });
        self.aliases.insert(&mut self.storage, alias, &db_id)
    }

    pub(crate) fn rollback(&mut self) -> (r: Result<(), DbError>)
    {
        let mut undo_stack = vec![];
        std::mem::swap(&mut undo_stack, &mut self.undo_stack);

        for command in undo_stack.iter().rev() {
            match command {
                Command::InsertAlias { id, alias } => {
                    self.aliases.insert(&mut self.storage, alias, id)?
                }
                Command::InsertNode => {}
                Command::RemoveAlias { alias } => {
                    self.aliases.remove_key(&mut self.storage, alias)?
                }
                Command::ReplaceKeyValue { id, n } => {
                    return Ok(());
                }
            }
        }

        Ok(())
    }
}

}
fn main() {}
