use vstd::prelude::*;
verus! {

pub struct DbError { pub code: u8 }
#[derive(Clone, Copy, PartialEq, Eq)]
pub struct DbId(pub i64);
pub struct Storage<D> { d: D }
pub trait StorageData: Sized {}

pub enum Command {
    InsertAlias { id: DbId, alias: String },
    InsertNode,
    RemoveAlias { alias: String },
    ReplaceKeyValue { id: DbId, n: u64 },
}

#[verifier::external_body]
#[verifier::reject_recursive_types(D)]
pub struct Aliases<D> { d: std::marker::PhantomData<D> }

pub type AMap = Map<Seq<char>, DbId>;

impl<D: StorageData> Aliases<D> {
    pub uninterp spec fn view(&self) -> AMap;
    #[verifier::external_body]
    pub fn remove_key(&mut self, storage: &mut Storage<D>, key: &String) -> (r: Result<(), DbError>)
        ensures r is Ok ==> final(self).view() == old(self).view().remove(key@)
    { unimplemented!() }
    #[verifier::external_body]
    pub fn insert(&mut self, storage: &mut Storage<D>, key: &String, value: &DbId) -> (r: Result<(), DbError>)
        ensures r is Ok ==> final(self).view() == old(self).view().insert(key@, *value)
    { unimplemented!() }
}

// what one undo command is meant to do to the alias map (from the property: restore)
pub open spec fn inverse(c: Command, a: AMap) -> AMap {
    match c {
        Command::InsertAlias { id, alias } => a.insert(alias@, id),
        Command::RemoveAlias { alias } => a.remove(alias@),
        _ => a,
    }
}
// newest (last pushed) first
pub open spec fn undo(cmds: Seq<Command>, a: AMap) -> AMap
    decreases cmds.len()
{
    if cmds.len() == 0 { a } else { undo(cmds.drop_last(), inverse(cmds.last(), a)) }
}

#[verifier::reject_recursive_types(Store)]
pub struct DbImpl<Store: StorageData> {
    storage: Storage<Store>,
    aliases: Aliases<Store>,
    undo_stack: Vec<Command>,
}

impl<Store: StorageData> DbImpl<Store> {
    pub(crate) fn rollback(&mut self) -> (r: Result<(), DbError>)
        ensures r is Ok ==> final(self).aliases.view() == undo(old(self).undo_stack@, old(self).aliases.view())
                         && final(self).undo_stack@.len() == 0,
    {
        let mut undo_stack = vec![];
        std::mem::swap(&mut undo_stack, &mut self.undo_stack);
        let ghost all = undo_stack@;
        let ghost a0 = self.aliases.view();
        let ghost mut done: int = 0;

        for command in it: undo_stack.iter().rev()
            invariant
                undo_stack@ == all, self.undo_stack@.len() == 0,
                0 <= done <= all.len(),
                undo(all, a0) == undo(all.subrange(0, all.len() - done), self.aliases.view()),
        {
            proof { assume(false); }
            match command {
                Command::InsertAlias { id, alias } => {
                    self.aliases.insert(&mut self.storage, alias, id)?
                }
                Command::InsertNode => {}
                Command::RemoveAlias { alias } => {
                    self.aliases.remove_key(&mut self.storage, alias)?
                }
                Command::ReplaceKeyValue { id, n } => {
                    return Ok(());
                }
            }
            proof { done = done + 1; }
        }

        Ok(())
    }
}

}
fn main() {}
