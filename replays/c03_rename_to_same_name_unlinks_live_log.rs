//! C03 / C05 replay: `db.rename(<its current name>)` unlinks the live write-ahead log.
//! FileStorage::rename re-opens the log of the NEW name and then removes the log of the OLD name - when both
//! names are equal that is the log it has just opened. The storage keeps logging into an unlinked file, so after
//! a crash there is no log next to the database and a partially executed transaction becomes visible.
//!
//! Crash atomicity of a mutating transaction executed after the database was renamed to its own name.
//!
//! A `StorageData` wrapper around `FileStorage` copies the database file and its
//! write ahead log (if there is one on disk) before every storage operation (write /
//! resize / flush). Each copy is what a process crash at that point would leave on
//! disk. Every copy is then reopened and must show either the state from before the
//! transaction or the state after it.

use agdb::DbError;
use agdb::DbFile;
use agdb::DbImpl;
use agdb::FileStorage;
use agdb::QueryBuilder;
use agdb::StorageData;
use agdb::StorageSlice;
use std::path::Path;
use std::sync::atomic::AtomicBool;
use std::sync::atomic::AtomicU64;
use std::sync::atomic::Ordering;

static ARMED: AtomicBool = AtomicBool::new(false);
static OPS: AtomicU64 = AtomicU64::new(0);

fn wal_name(name: &str) -> String {
    let pos = name.rfind('/').map(|p| p + 1).unwrap_or(0);
    let mut wal = name.to_string();
    wal.insert(pos, '.');
    wal
}

fn snapshot_name(name: &str, k: u64) -> String {
    format!("{name}.crash{k}")
}

struct CrashStorage {
    inner: FileStorage,
}

impl CrashStorage {
    fn crash_point(&self) {
        if ARMED.load(Ordering::SeqCst) {
            let k = OPS.fetch_add(1, Ordering::SeqCst);
            let snapshot = snapshot_name(self.inner.name(), k);
            std::fs::copy(self.inner.name(), &snapshot).unwrap();
            let wal = wal_name(self.inner.name());
            if Path::new(&wal).exists() {
                std::fs::copy(wal, wal_name(&snapshot)).unwrap();
            }
        }
    }
}

impl StorageData for CrashStorage {
    fn backup(&self, name: &str) -> Result<(), DbError> {
        self.inner.backup(name)
    }

    fn copy(&self, name: &str) -> Result<Self, DbError> {
        Ok(Self {
            inner: self.inner.copy(name)?,
        })
    }

    fn flush(&mut self) -> Result<(), DbError> {
        self.crash_point();
        self.inner.flush()
    }

    fn len(&self) -> u64 {
        self.inner.len()
    }

    fn name(&self) -> &str {
        self.inner.name()
    }

    fn new(name: &str) -> Result<Self, DbError> {
        Ok(Self {
            inner: FileStorage::new(name)?,
        })
    }

    fn read(&'_ self, pos: u64, value_len: u64) -> Result<StorageSlice<'_>, DbError> {
        self.inner.read(pos, value_len)
    }

    fn rename(&mut self, new_name: &str) -> Result<(), DbError> {
        self.inner.rename(new_name)
    }

    fn resize(&mut self, new_len: u64) -> Result<(), DbError> {
        self.crash_point();
        self.inner.resize(new_len)
    }

    fn write(&mut self, pos: u64, bytes: &[u8]) -> Result<(), DbError> {
        self.crash_point();
        self.inner.write(pos, bytes)
    }
}

fn dump<S: StorageData>(db: &DbImpl<S>) -> String {
    let ids = db
        .exec(QueryBuilder::search().elements().query())
        .unwrap();
    let elements = db.exec(QueryBuilder::select().ids(&ids).query()).unwrap();
    let aliases = db
        .exec(QueryBuilder::select().aliases().query())
        .unwrap();
    let indexes = db
        .exec(QueryBuilder::select().indexes().query())
        .unwrap();
    let nodes = db
        .exec(QueryBuilder::select().node_count().query())
        .unwrap();
    format!(
        "elements: {:?}\naliases: {:?}\nindexes: {:?}\nnode_count: {}",
        elements.elements, aliases.elements, indexes.elements, nodes.result
    )
}

fn partial_states(name: &str, from: u64, to: u64, before: &str, after: &str) -> Vec<u64> {
    let mut bad = vec![];

    for k in from..to {
        match DbFile::new(&snapshot_name(name, k)) {
            Ok(db) => {
                let state = dump(&db);
                if state != before && state != after {
                    bad.push(k);
                }
            }
            Err(_) => bad.push(k),
        }
    }

    bad
}

#[test]
fn crash_inside_transaction_after_rename_to_same_name_is_atomic() {
    let dir = std::env::temp_dir().join(format!("agdb_replay_c03_rename_same_{}", std::process::id()));
    let _ = std::fs::remove_dir_all(&dir);
    std::fs::create_dir_all(&dir).unwrap();
    let old_name = dir.join("db.agdb").to_str().unwrap().to_string();
    let name = old_name.clone(); // rename to the same name

    let state0;
    let state1;
    let state2;
    let end1;
    let end2;

    {
        let mut db = DbImpl::<CrashStorage>::new(&old_name).unwrap();
        db.exec_mut(
            QueryBuilder::insert()
                .nodes()
                .aliases(["root", "users"])
                .values([
                    [("name", "root").into(), ("n", 1).into()],
                    [("name", "users").into(), ("n", 2).into()],
                ])
                .query(),
        )
        .unwrap();

        db.rename(&name).unwrap();
        assert_eq!(db.filename(), name);

        db.exec_mut(QueryBuilder::insert().edges().from("root").to("users").query())
            .unwrap();
        state0 = dump(&db);

        ARMED.store(true, Ordering::SeqCst);

        // transaction 1: two values overwritten in place
        db.transaction_mut(|t| -> Result<(), DbError> {
            t.exec_mut(
                QueryBuilder::insert()
                    .values([[("n", 10).into()]])
                    .ids("root")
                    .query(),
            )?;
            t.exec_mut(
                QueryBuilder::insert()
                    .values([[("n", 20).into()]])
                    .ids("users")
                    .query(),
            )?;
            Ok(())
        })
        .unwrap();
        end1 = OPS.load(Ordering::SeqCst);
        state1 = dump(&db);
        assert_ne!(state0, state1);

        // transaction 2: new nodes, aliases, values, edges and a removal
        db.transaction_mut(|t| -> Result<(), DbError> {
            t.exec_mut(
                QueryBuilder::insert()
                    .nodes()
                    .aliases(["alice", "bob"])
                    .values([
                        [("name", "alice").into(), ("n", 3).into()],
                        [("name", "bob").into(), ("n", 4).into()],
                    ])
                    .query(),
            )?;
            t.exec_mut(
                QueryBuilder::insert()
                    .edges()
                    .from("users")
                    .to(["alice", "bob"])
                    .query(),
            )?;
            t.exec_mut(QueryBuilder::remove().ids("root").query())?;
            Ok(())
        })
        .unwrap();
        ARMED.store(false, Ordering::SeqCst);
        end2 = OPS.load(Ordering::SeqCst);
        state2 = dump(&db);
        assert_ne!(state1, state2);
    }

    assert!(0 < end1 && end1 < end2);
    assert_eq!(dump(&DbFile::new(&name).unwrap()), state2);

    let bad1 = partial_states(&name, 0, end1, &state0, &state1);

    if !bad1.is_empty() {
        let _ = std::fs::remove_dir_all(&dir);
    }

    assert!(
        bad1.is_empty(),
        "transaction 1: crash points (of 0..{end1}) after which the reopened database shows a partial effect: {bad1:?}"
    );

    let bad2 = partial_states(&name, end1, end2, &state1, &state2);
    let _ = std::fs::remove_dir_all(&dir);
    assert!(
        bad2.is_empty(),
        "transaction 2: crash points (of {end1}..{end2}) after which the reopened database shows a partial effect: {bad2:?}"
    );
}
