//! C05 replay: restoring a backup (Db::backup / Db::copy) over a database that crashed inside a transaction.
//! The crashed database leaves its write-ahead log next to its file. backup()/copy() overwrite the file but leave
//! that log; the next open replays the STALE log of the old database over the restored copy.
//!
//! (crash images are produced as in the C03 replays:)
//!
//! A `StorageData` wrapper around `FileStorage` copies the database file and its
//! write ahead log (if there is one on disk) before every storage operation (write /
//! resize / flush). Each copy is what a process crash at that point would leave on
//! disk. Every copy is then reopened and must show either the state from before the
//! transaction or the state after it.

use agdb::DbError;
use agdb::DbFile;
use agdb::DbImpl;
use agdb::FileStorage;
use agdb::QueryBuilder;
use agdb::StorageData;
use agdb::StorageSlice;
use std::path::Path;
use std::sync::atomic::AtomicBool;
use std::sync::atomic::AtomicU64;
use std::sync::atomic::Ordering;

static ARMED: AtomicBool = AtomicBool::new(false);
static OPS: AtomicU64 = AtomicU64::new(0);
// the two tests share the crash-point switches above: one at a time
static ONE_AT_A_TIME: std::sync::Mutex<()> = std::sync::Mutex::new(());

fn wal_name(name: &str) -> String {
    let pos = name.rfind('/').map(|p| p + 1).unwrap_or(0);
    let mut wal = name.to_string();
    wal.insert(pos, '.');
    wal
}

fn snapshot_name(name: &str, k: u64) -> String {
    format!("{name}.crash{k}")
}

struct CrashStorage {
    inner: FileStorage,
}

impl CrashStorage {
    fn crash_point(&self) {
        if ARMED.load(Ordering::SeqCst) {
            let k = OPS.fetch_add(1, Ordering::SeqCst);
            let snapshot = snapshot_name(self.inner.name(), k);
            std::fs::copy(self.inner.name(), &snapshot).unwrap();
            let wal = wal_name(self.inner.name());
            if Path::new(&wal).exists() {
                std::fs::copy(wal, wal_name(&snapshot)).unwrap();
            }
        }
    }
}

impl StorageData for CrashStorage {
    fn backup(&self, name: &str) -> Result<(), DbError> {
        self.inner.backup(name)
    }

    fn copy(&self, name: &str) -> Result<Self, DbError> {
        Ok(Self {
            inner: self.inner.copy(name)?,
        })
    }

    fn flush(&mut self) -> Result<(), DbError> {
        self.crash_point();
        self.inner.flush()
    }

    fn len(&self) -> u64 {
        self.inner.len()
    }

    fn name(&self) -> &str {
        self.inner.name()
    }

    fn new(name: &str) -> Result<Self, DbError> {
        Ok(Self {
            inner: FileStorage::new(name)?,
        })
    }

    fn read(&'_ self, pos: u64, value_len: u64) -> Result<StorageSlice<'_>, DbError> {
        self.inner.read(pos, value_len)
    }

    fn rename(&mut self, new_name: &str) -> Result<(), DbError> {
        self.inner.rename(new_name)
    }

    fn resize(&mut self, new_len: u64) -> Result<(), DbError> {
        self.crash_point();
        self.inner.resize(new_len)
    }

    fn write(&mut self, pos: u64, bytes: &[u8]) -> Result<(), DbError> {
        self.crash_point();
        self.inner.write(pos, bytes)
    }
}

fn dump<S: StorageData>(db: &DbImpl<S>) -> String {
    let ids = db
        .exec(QueryBuilder::search().elements().query())
        .unwrap();
    let elements = db.exec(QueryBuilder::select().ids(&ids).query()).unwrap();
    let aliases = db
        .exec(QueryBuilder::select().aliases().query())
        .unwrap();
    let indexes = db
        .exec(QueryBuilder::select().indexes().query())
        .unwrap();
    let nodes = db
        .exec(QueryBuilder::select().node_count().query())
        .unwrap();
    format!(
        "elements: {:?}\naliases: {:?}\nindexes: {:?}\nnode_count: {}",
        elements.elements, aliases.elements, indexes.elements, nodes.result
    )
}


fn crash_image_of_other_db(target: &str) {
    // a database at `target` that "crashes" inside a transaction: snapshot 1 of the transaction is copied to
    // `target` + its log, exactly what the dead process would have left on disk
    let work = format!("{target}.work");
    let k0;
    {
        let mut db = DbImpl::<CrashStorage>::new(&work).unwrap();
        db.exec_mut(
            QueryBuilder::insert()
                .nodes()
                .aliases(["x", "y"])
                .values([[("k", 1).into()], [("k", 2).into()]])
                .query(),
        )
        .unwrap();
        k0 = OPS.load(Ordering::SeqCst);
        ARMED.store(true, Ordering::SeqCst);
        db.transaction_mut(|t| -> Result<(), DbError> {
            t.exec_mut(QueryBuilder::insert().values([[("k", 100).into()]]).ids("x").query())?;
            t.exec_mut(QueryBuilder::insert().values([[("k", 200).into()]]).ids("y").query())?;
            Ok(())
        })
        .unwrap();
        ARMED.store(false, Ordering::SeqCst);
    }
    let k = k0 + 1;
    std::fs::copy(snapshot_name(&work, k), target).unwrap();
    assert!(Path::new(&wal_name(&snapshot_name(&work, k))).exists(), "crash image has a log");
    std::fs::copy(wal_name(&snapshot_name(&work, k)), wal_name(target)).unwrap();
}

#[test]
fn backup_restored_over_a_crashed_database_is_the_backup() {
    let _guard = ONE_AT_A_TIME.lock().unwrap_or_else(|e| e.into_inner());
    let dir = std::env::temp_dir().join(format!("agdb_replay_c05_restore_{}", std::process::id()));
    let _ = std::fs::remove_dir_all(&dir);
    std::fs::create_dir_all(&dir).unwrap();
    let good = dir.join("good.agdb").to_str().unwrap().to_string();
    let main = dir.join("main.agdb").to_str().unwrap().to_string();
    let main2 = dir.join("main2.agdb").to_str().unwrap().to_string();

    crash_image_of_other_db(&main);
    crash_image_of_other_db(&main2);

    let db = DbFile::new(&good).unwrap();
    let mut db = db;
    db.exec_mut(
        QueryBuilder::insert()
            .nodes()
            .aliases(["a", "b", "c"])
            .values([[("name", "a").into()], [("name", "b").into()], [("name", "c").into()]])
            .query(),
    )
    .unwrap();
    db.exec_mut(QueryBuilder::insert().edges().from("a").to(["b", "c"]).query())
        .unwrap();
    let expected = dump(&db);

    // restore by backup(): overwrite the crashed database file, then open it
    db.backup(&main).unwrap();
    let restored = DbFile::new(&main).map(|d| dump(&d));
    // restore by copy()
    let copied = db.copy(&main2).map(|d| dump(&d));
    let _ = std::fs::remove_dir_all(&dir);

    assert_eq!(restored.as_deref().ok(), Some(expected.as_str()), "backup() over a crashed database");
    assert_eq!(copied.as_deref().ok(), Some(expected.as_str()), "copy() over a crashed database");
}

#[test]
fn memory_backup_restored_over_a_crashed_database_is_the_backup() {
    let _guard = ONE_AT_A_TIME.lock().unwrap_or_else(|e| e.into_inner());
    let dir = std::env::temp_dir().join(format!("agdb_replay_c05_restore_mem_{}", std::process::id()));
    let _ = std::fs::remove_dir_all(&dir);
    std::fs::create_dir_all(&dir).unwrap();
    let main = dir.join("main.agdb").to_str().unwrap().to_string();

    crash_image_of_other_db(&main);

    let mut db = agdb::DbMemory::new("memory").unwrap();
    db.exec_mut(
        QueryBuilder::insert()
            .nodes()
            .aliases(["a", "b", "c"])
            .values([[("name", "a").into()], [("name", "b").into()], [("name", "c").into()]])
            .query(),
    )
    .unwrap();
    db.exec_mut(QueryBuilder::insert().edges().from("a").to(["b", "c"]).query())
        .unwrap();
    let expected = dump(&db);

    // the in-memory database dumps itself over the crashed file; the file is then opened by the file variant
    db.backup(&main).unwrap();
    let restored = DbFile::new(&main).map(|d| dump(&d));
    let _ = std::fs::remove_dir_all(&dir);

    assert_eq!(restored.as_deref().ok(), Some(expected.as_str()), "DbMemory::backup() over a crashed database");
}
