//! C32: a failed storage write during a mutating query must leave no effect.
//!
//! `DbImpl::remove_index` records its undo commands (InsertToIndex per entry, InsertIndex) BEFORE it
//! removes the index. When the removal fails on its first write nothing has been removed, but the
//! rollback of the failed query still replays those commands: a second index for the same key is
//! created and every entry is inserted again (obligation C13.remove_index.failed_removal_records_nothing).
//! (`DbVecData::remove`, used for the stored list of indexes, also decrements its cached length before
//! it writes, so a failure inside it leaves the in-memory list one shorter than the stored one.)
//!
//! History: 3 indexes and some data; `remove index k1` with the n-th write/resize failing (every n
//! until the query succeeds); after each failed attempt the database must look exactly as before,
//! must accept a new index, and the reopened file must show the same state as the live database.

use agdb::DbError;
use agdb::DbFile;
use agdb::DbImpl;
use agdb::FileStorage;
use agdb::QueryBuilder;
use agdb::StorageData;
use agdb::StorageSlice;
use std::sync::Arc;
use std::sync::atomic::AtomicI64;
use std::sync::atomic::Ordering;

static COUNTDOWN: AtomicI64 = AtomicI64::new(-1);

struct Faulty {
    inner: FileStorage,
    _keep: Arc<()>,
}

fn tick(what: &str) -> Result<(), DbError> {
    let c = COUNTDOWN.load(Ordering::SeqCst);
    if c < 0 {
        return Ok(());
    }
    COUNTDOWN.store(c - 1, Ordering::SeqCst);
    if c == 0 {
        return Err(DbError::from(std::io::Error::other(format!(
            "injected {what} failure"
        ))));
    }
    Ok(())
}

impl StorageData for Faulty {
    fn backup(&self, name: &str) -> Result<(), DbError> {
        self.inner.backup(name)
    }
    fn copy(&self, name: &str) -> Result<Self, DbError> {
        Ok(Self {
            inner: self.inner.copy(name)?,
            _keep: Arc::new(()),
        })
    }
    fn flush(&mut self) -> Result<(), DbError> {
        self.inner.flush()
    }
    fn len(&self) -> u64 {
        self.inner.len()
    }
    fn name(&self) -> &str {
        self.inner.name()
    }
    fn new(name: &str) -> Result<Self, DbError> {
        Ok(Self {
            inner: FileStorage::new(name)?,
            _keep: Arc::new(()),
        })
    }
    fn read(&'_ self, pos: u64, value_len: u64) -> Result<StorageSlice<'_>, DbError> {
        self.inner.read(pos, value_len)
    }
    fn rename(&mut self, new_name: &str) -> Result<(), DbError> {
        self.inner.rename(new_name)
    }
    fn resize(&mut self, new_len: u64) -> Result<(), DbError> {
        tick("resize")?;
        self.inner.resize(new_len)
    }
    fn write(&mut self, pos: u64, bytes: &[u8]) -> Result<(), DbError> {
        tick("write")?;
        self.inner.write(pos, bytes)
    }
}

fn dump<S: StorageData>(db: &DbImpl<S>) -> String {
    let mut out = String::new();
    out += &format!(
        "indexes={:?}\n",
        db.exec(QueryBuilder::select().indexes().query())
            .expect("select indexes")
            .elements
    );
    for key in ["k1", "k2", "k3", "k4"] {
        for v in 0..4 {
            out += &format!(
                "{key}={v}: {:?}\n",
                db.exec(QueryBuilder::search().index(key).value(v).query())
                    .map(|r| r.ids())
                    .map_err(|e| e.description)
            );
        }
    }
    out
}

#[test]
fn failed_index_removal_has_no_effect() {
    let dir = std::env::temp_dir().join(format!("agdb_c32_vec_remove_{}", std::process::id()));
    let _ = std::fs::remove_dir_all(&dir);
    std::fs::create_dir_all(&dir).unwrap();
    let mut bad: Vec<String> = vec![];

    for n in 0..200 {
        let name = dir.join(format!("db{n}.agdb")).to_str().unwrap().to_string();
        let mut db = DbImpl::<Faulty>::new(&name).unwrap();
        for key in ["k1", "k2", "k3"] {
            db.exec_mut(QueryBuilder::insert().index(key).query())
                .unwrap();
        }
        db.exec_mut(
            QueryBuilder::insert()
                .nodes()
                .count(3)
                .values_uniform([("k1", 1).into(), ("k2", 2).into(), ("k3", 3).into()])
                .query(),
        )
        .unwrap();
        let before = dump(&db);

        COUNTDOWN.store(n, Ordering::SeqCst);
        let res = db.exec_mut(QueryBuilder::remove().index("k1").query());
        COUNTDOWN.store(-1, Ordering::SeqCst);

        if res.is_ok() {
            // the fault point lies behind the last write of the query: done
            assert!(n > 0, "the query performed no write at all");
            break;
        }

        let after = dump(&db);
        if after != before {
            bad.push(format!(
                "n={n}: the failed query had an effect\n--- before\n{before}--- after\n{after}"
            ));
            continue;
        }

        // the database stays usable, and the file agrees with the live database
        let r = db.exec_mut(QueryBuilder::insert().index("k4").query());
        if let Err(e) = r {
            bad.push(format!("n={n}: insert index after the failed query: {e:?}"));
            continue;
        }
        let live = dump(&db);
        drop(db);
        let reopened = match DbFile::new(&name) {
            Ok(db) => dump(&db),
            Err(e) => format!("cannot reopen: {e:?}"),
        };
        if reopened != live {
            bad.push(format!(
                "n={n}: the reopened file differs from the live database\n--- live\n{live}--- reopened\n{reopened}"
            ));
        }
    }

    let _ = std::fs::remove_dir_all(&dir);
    assert!(bad.is_empty(), "{} fault points fail:\n{}", bad.len(), bad.join("\n"));
}
