// C13: a failed transaction leaves no observable effect.  Two defects of the pinned tree:
//  (a) DbImpl::rollback returned early (`return Ok(())`) after undoing a replaced value, so every
//      command recorded before the replacement stayed applied;
//  (b) DbImpl::insert_alias recorded nothing to give an alias back to the node it was taken from.
use agdb::DbError;
use agdb::DbMemory;
use agdb::QueryBuilder;
use agdb::DbErrorType;

#[test]
fn a_rollback_undoes_everything_before_a_value_replacement() {
    let mut db = DbMemory::new("c13_replay_a").unwrap();
    db.exec_mut(QueryBuilder::insert().nodes().count(1).query())
        .unwrap();
    db.exec_mut(
        QueryBuilder::insert()
            .values([[("k", 1).into()]])
            .ids(1)
            .query(),
    )
    .unwrap();
    let r: Result<(), DbError> = db.transaction_mut(|t| {
        t.exec_mut(QueryBuilder::insert().nodes().count(1).query())?;
        t.exec_mut(
            QueryBuilder::insert()
                .values([[("k", 2).into()]])
                .ids(1)
                .query(),
        )?;
        Err(DbError::query(DbErrorType::NotAllowed, "fail"))
    });
    assert!(r.is_err());
    let nodes = db
        .exec(QueryBuilder::select().node_count().query())
        .unwrap()
        .result;
    assert_eq!(nodes, 1, "the node inserted by the failed transaction is still there");
}

#[test]
fn b_rollback_gives_a_stolen_alias_back() {
    let mut db = DbMemory::new("c13_replay_b").unwrap();
    db.exec_mut(QueryBuilder::insert().nodes().aliases(["a", "b"]).query())
        .unwrap();
    let r: Result<(), DbError> = db.transaction_mut(|t| {
        // node 2 takes alias "a" from node 1
        t.exec_mut(QueryBuilder::insert().aliases("a").ids(2).query())?;
        Err(DbError::query(DbErrorType::NotAllowed, "fail"))
    });
    assert!(r.is_err());
    let ids = db
        .exec(QueryBuilder::select().ids("a").query())
        .map(|r| r.elements[0].id.0);
    assert_eq!(ids, Ok(1), "alias 'a' must name node 1 again after the rollback");
    let ids = db
        .exec(QueryBuilder::select().ids("b").query())
        .map(|r| r.elements[0].id.0);
    assert_eq!(ids, Ok(2), "alias 'b' must name node 2 again after the rollback");
}
