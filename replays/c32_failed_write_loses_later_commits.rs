// C32 replay (written by an independent sub-agent as the demonstration of seeded change C03-2; it also
// reproduces the genuine defect of the pinned tree): after a query fails on an injected write error
// the storage transaction counter never returned to 0, the log was never cleared again and a crash
// (or drop) lost every query completed since.  Fixed by f0badcb (close_transaction at the query boundary).
//! Queries completed after a failed query must survive a later crash.
//!
//! A `StorageData` wrapper around `FileStorage` (1) can make exactly one write fail
//! (an I/O error in the middle of a query) and (2) copies the database file and its
//! write ahead log before every storage operation (write / resize / flush); each copy
//! is what a process crash at that point would leave on disk.
//!
//! History: Q1 ok, Q2 fails with the injected I/O error (and is rolled back), Q3 ok,
//! Q4 ok, crash while idle, crash at every point inside Q5. The reopened database
//! must show the state after Q4 (or after Q5 for the crash points inside Q5).

use agdb::DbError;
use agdb::DbFile;
use agdb::DbImpl;
use agdb::FileStorage;
use agdb::QueryBuilder;
use agdb::StorageData;
use agdb::StorageSlice;
use std::path::Path;
use std::sync::atomic::AtomicBool;
use std::sync::atomic::AtomicU64;
use std::sync::atomic::Ordering;

static ARMED: AtomicBool = AtomicBool::new(false);
static OPS: AtomicU64 = AtomicU64::new(0);
static FAIL_NEXT_WRITE: AtomicBool = AtomicBool::new(false);

fn wal_name(name: &str) -> String {
    let pos = name.rfind('/').map(|p| p + 1).unwrap_or(0);
    let mut wal = name.to_string();
    wal.insert(pos, '.');
    wal
}

fn snapshot_name(name: &str, k: u64) -> String {
    format!("{name}.crash{k}")
}

struct CrashStorage {
    inner: FileStorage,
}

impl CrashStorage {
    fn crash_point(&self) {
        if ARMED.load(Ordering::SeqCst) {
            let k = OPS.fetch_add(1, Ordering::SeqCst);
            let snapshot = snapshot_name(self.inner.name(), k);
            std::fs::copy(self.inner.name(), &snapshot).unwrap();
            let wal = wal_name(self.inner.name());
            if Path::new(&wal).exists() {
                std::fs::copy(wal, wal_name(&snapshot)).unwrap();
            }
        }
    }
}

impl StorageData for CrashStorage {
    fn backup(&self, name: &str) -> Result<(), DbError> {
        self.inner.backup(name)
    }

    fn copy(&self, name: &str) -> Result<Self, DbError> {
        Ok(Self {
            inner: self.inner.copy(name)?,
        })
    }

    fn flush(&mut self) -> Result<(), DbError> {
        self.crash_point();
        self.inner.flush()
    }

    fn len(&self) -> u64 {
        self.inner.len()
    }

    fn name(&self) -> &str {
        self.inner.name()
    }

    fn new(name: &str) -> Result<Self, DbError> {
        Ok(Self {
            inner: FileStorage::new(name)?,
        })
    }

    fn read(&'_ self, pos: u64, value_len: u64) -> Result<StorageSlice<'_>, DbError> {
        self.inner.read(pos, value_len)
    }

    fn rename(&mut self, new_name: &str) -> Result<(), DbError> {
        self.inner.rename(new_name)
    }

    fn resize(&mut self, new_len: u64) -> Result<(), DbError> {
        self.crash_point();
        self.inner.resize(new_len)
    }

    fn write(&mut self, pos: u64, bytes: &[u8]) -> Result<(), DbError> {
        if FAIL_NEXT_WRITE.swap(false, Ordering::SeqCst) {
            return Err(DbError::from(std::io::Error::other(
                "injected write failure",
            )));
        }

        self.crash_point();
        self.inner.write(pos, bytes)
    }
}

fn dump<S: StorageData>(db: &DbImpl<S>) -> String {
    let ids = db
        .exec(QueryBuilder::search().elements().query())
        .unwrap();
    let elements = db.exec(QueryBuilder::select().ids(&ids).query()).unwrap();
    let aliases = db
        .exec(QueryBuilder::select().aliases().query())
        .unwrap();
    let indexes = db
        .exec(QueryBuilder::select().indexes().query())
        .unwrap();
    let nodes = db
        .exec(QueryBuilder::select().node_count().query())
        .unwrap();
    format!(
        "elements: {:?}\naliases: {:?}\nindexes: {:?}\nnode_count: {}",
        elements.elements, aliases.elements, indexes.elements, nodes.result
    )
}

fn recovered(snapshot: &str) -> String {
    match DbFile::new(snapshot) {
        Ok(db) => dump(&db),
        Err(e) => format!("cannot open: {e:?}"),
    }
}

#[test]
fn queries_completed_after_a_failed_query_survive_a_crash() {
    let dir = std::env::temp_dir().join(format!("agdb_seeded_c03_2_{}", std::process::id()));
    let _ = std::fs::remove_dir_all(&dir);
    std::fs::create_dir_all(&dir).unwrap();
    let name = dir.join("db.agdb").to_str().unwrap().to_string();

    let after_q4;
    let after_q5;
    let idle_snapshot;
    let first;
    let last;

    {
        let mut db = DbImpl::<CrashStorage>::new(&name).unwrap();

        // Q1
        db.exec_mut(
            QueryBuilder::insert()
                .nodes()
                .aliases(["root", "users"])
                .values([
                    [("name", "root").into(), ("n", 1).into()],
                    [("name", "users").into(), ("n", 2).into()],
                ])
                .query(),
        )
        .unwrap();
        let after_q1 = dump(&db);

        // Q2: overwrites an existing value in place; its only write fails
        FAIL_NEXT_WRITE.store(true, Ordering::SeqCst);
        let q2 = db.exec_mut(
            QueryBuilder::insert()
                .values([[("n", 5).into()]])
                .ids("root")
                .query(),
        );
        assert!(q2.is_err());
        assert!(!FAIL_NEXT_WRITE.load(Ordering::SeqCst));
        assert_eq!(dump(&db), after_q1);

        // Q3, Q4
        db.exec_mut(
            QueryBuilder::insert()
                .nodes()
                .aliases("alice")
                .values([[("name", "alice").into(), ("n", 3).into()]])
                .query(),
        )
        .unwrap();
        db.exec_mut(
            QueryBuilder::insert()
                .edges()
                .from("users")
                .to("alice")
                .query(),
        )
        .unwrap();
        after_q4 = dump(&db);
        assert_ne!(after_q4, after_q1);

        // crash while idle
        ARMED.store(true, Ordering::SeqCst);
        idle_snapshot = OPS.load(Ordering::SeqCst);
        // no storage operation is running, take the idle snapshot by hand
        let snapshot = snapshot_name(&name, idle_snapshot);
        std::fs::copy(&name, &snapshot).unwrap();
        if Path::new(&wal_name(&name)).exists() {
            std::fs::copy(wal_name(&name), wal_name(&snapshot)).unwrap();
        }
        OPS.fetch_add(1, Ordering::SeqCst);

        // Q5 with a crash point before each of its storage operations
        first = OPS.load(Ordering::SeqCst);
        db.exec_mut(
            QueryBuilder::insert()
                .nodes()
                .aliases("bob")
                .values([[("name", "bob").into(), ("n", 4).into()]])
                .query(),
        )
        .unwrap();
        ARMED.store(false, Ordering::SeqCst);
        last = OPS.load(Ordering::SeqCst);
        after_q5 = dump(&db);
    }

    assert!(first < last);

    let idle = recovered(&snapshot_name(&name, idle_snapshot));
    let mut bad = vec![];

    for k in first..last {
        let state = recovered(&snapshot_name(&name, k));

        if state != after_q4 && state != after_q5 {
            bad.push(k);
        }
    }

    let _ = std::fs::remove_dir_all(&dir);

    assert_eq!(
        idle, after_q4,
        "a crash after Q4 completed lost completed queries"
    );
    assert!(
        bad.is_empty(),
        "crash points inside Q5 ({first}..{last}) after which the reopened database is neither the state before nor after Q5: {bad:?}"
    );
}
