// C16: a limit beyond the end yields a shorter result, never a failure.  On the pinned tree
// LimitOffsetHandler::new computed `limit + offset` unchecked: limit(u64::MAX) with a non-zero offset
// panicked ("attempt to add with overflow") in debug builds.
use agdb::DbMemory;
use agdb::QueryBuilder;

#[test]
fn huge_limit_with_offset() {
    let mut db = DbMemory::new("c16_replay_b").unwrap();
    db.exec_mut(QueryBuilder::insert().nodes().count(3).query())
        .unwrap();
    db.exec_mut(QueryBuilder::insert().edges().from([1, 2]).to([2, 3]).query())
        .unwrap();
    let r = db
        .exec(
            QueryBuilder::search()
                .from(1)
                .offset(1)
                .limit(u64::MAX)
                .query(),
        )
        .unwrap();
    assert_eq!(r.elements.len(), 4);
}
