// C07: opening a database whose recovery log holds garbage must succeed or return an error - it
// must not hang, panic or attempt an enormous allocation.
//
// The log is a sequence of records (pos: u64, size: u64, size bytes). `WriteAheadLog::repair`
// skips over each record with `seek(Current(size as i64))` and accepts it when the new position is
// not past the end of the log:
//  (a) size = 0xFFFF_FFFF_FFFF_FFF0 is -16 as i64: the seek goes back to the start of the record,
//      the position never advances and `repair` (hence `DbFile::new`) never returns;
//  (b) size = 0xFFFF_FFFF_FFFF_FFF8 is -8: the record is "accepted" (the next one starts 8 bytes
//      later), and `WriteAheadLog::records` then allocates a buffer of 2^64-8 bytes: the process
//      panics with `capacity overflow`.
use agdb::DbFile;
use agdb::QueryBuilder;
use std::sync::mpsc::channel;
use std::time::Duration;

fn wal_name(name: &str) -> String {
    let pos = name.rfind('/').map(|p| p + 1).unwrap_or(0);
    let mut wal = name.to_string();
    wal.insert(pos, '.');
    wal
}

fn db_with_log(tag: &str, log: &[u8]) -> String {
    let dir = std::env::temp_dir().join(format!("agdb_c07_log_{tag}_{}", std::process::id()));
    let _ = std::fs::remove_dir_all(&dir);
    std::fs::create_dir_all(&dir).unwrap();
    let name = dir.join("db.agdb").to_str().unwrap().to_string();
    {
        let mut db = DbFile::new(&name).unwrap();
        db.exec_mut(QueryBuilder::insert().nodes().count(2).query())
            .unwrap();
    }
    std::fs::write(wal_name(&name), log).unwrap();
    name
}

fn record(pos: u64, size: u64, payload: &[u8]) -> Vec<u8> {
    let mut v = vec![];
    v.extend(pos.to_le_bytes());
    v.extend(size.to_le_bytes());
    v.extend(payload);
    v
}

fn open_with_timeout(name: String) -> Result<Result<(), String>, ()> {
    let (tx, rx) = channel();
    std::thread::spawn(move || {
        let r = std::panic::catch_unwind(|| DbFile::new(&name).map(|_| ()).map_err(|e| e.description));
        let _ = tx.send(r);
    });
    match rx.recv_timeout(Duration::from_secs(20)) {
        Ok(Ok(r)) => Ok(r),
        Ok(Err(_)) => Ok(Err("PANIC".to_string())),
        Err(_) => Err(()),
    }
}

#[test]
fn log_record_with_size_minus_16_does_not_hang() {
    let name = db_with_log("a", &record(0, 0xFFFF_FFFF_FFFF_FFF0, &[]));
    let r = open_with_timeout(name);
    assert!(r.is_ok(), "opening did not return within 20 s");
    assert_ne!(r.unwrap(), Err("PANIC".to_string()), "opening panicked");
}

#[test]
fn log_record_with_size_minus_8_does_not_panic() {
    // -8: the "next record" starts at byte 8; give it a harmless header so that repair accepts all
    let mut log = record(0, 0xFFFF_FFFF_FFFF_FFF8, &[]);
    log.extend(0_u64.to_le_bytes()); // bytes 16..24: size field of the overlapping record at 8 = 0
    let name = db_with_log("b", &log);
    let r = open_with_timeout(name);
    assert!(r.is_ok(), "opening did not return within 20 s");
    assert_ne!(r.unwrap(), Err("PANIC".to_string()), "opening panicked");
}
