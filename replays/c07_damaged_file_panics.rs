// C07: opening a damaged database file either succeeds or returns an error; it never panics.
// On the pinned tree Storage::read_records read a record header without checking that 16 bytes are
// left, accepted records that end up to 32 bytes past the end of the file, and read the version
// record's value without a bound: the in-memory back-end then indexes its buffer out of range.
use agdb::DbMemory;
use agdb::QueryBuilder;

fn valid_db_bytes(name: &str) -> Vec<u8> {
    let _ = std::fs::remove_file(name);
    {
        let mut db = DbMemory::new(name).unwrap();
        db.exec_mut(QueryBuilder::insert().nodes().count(2).query())
            .unwrap();
        db.backup(name).unwrap();
    }
    let bytes = std::fs::read(name).unwrap();
    let _ = std::fs::remove_file(name);
    bytes
}

fn open(name: &str, bytes: &[u8]) -> bool {
    std::fs::write(name, bytes).unwrap();
    let name_owned = name.to_string();
    let r = std::panic::catch_unwind(move || DbMemory::new(&name_owned).is_ok());
    let _ = std::fs::remove_file(name);
    r.expect("opening the damaged file panicked")
}

#[test]
fn trailing_fragment_shorter_than_a_header() {
    let mut bytes = valid_db_bytes("c07_replay_a.agdb");
    bytes.extend_from_slice(&[1, 2, 3, 4, 5, 6]);
    let _ = open("c07_replay_a.agdb", &bytes);
}

#[test]
fn version_record_with_a_huge_size() {
    let mut bytes = valid_db_bytes("c07_replay_b.agdb");
    // record 0 header: index (8 bytes) = 0, size (8 bytes)
    bytes[8..16].copy_from_slice(&u64::MAX.to_le_bytes());
    let _ = open("c07_replay_b.agdb", &bytes);
}

#[test]
fn last_record_claims_24_bytes_more_than_the_file_has() {
    let mut bytes = valid_db_bytes("c07_replay_c.agdb");
    // append a header whose size field exceeds what is left by 24 bytes: the pinned check
    // `(end - pos + 16) < size` lets it through
    let index = 1000_u64;
    bytes.extend_from_slice(&index.to_le_bytes());
    bytes.extend_from_slice(&24_u64.to_le_bytes());
    let _ = open("c07_replay_c.agdb", &bytes);
}
