// C16: an offset (or offset+limit) beyond the end of an ORDERED search must give a shorter/empty
// result, never a failure.  On the pinned tree SearchQuery::slice indexed `ids[offset..]` unclamped
// and panicked ("range start index 10 out of range for slice of length 2").
use agdb::DbKeyOrder;
use agdb::DbMemory;
use agdb::QueryBuilder;

#[test]
fn ordered_search_offset_past_end() {
    let mut db = DbMemory::new("c16_replay").unwrap();
    db.exec_mut(QueryBuilder::insert().nodes().count(2).query())
        .unwrap();
    let r = db
        .exec(
            QueryBuilder::search()
                .elements()
                .order_by([DbKeyOrder::Asc("k".into())])
                .offset(10)
                .query(),
        )
        .unwrap();
    assert_eq!(r.elements.len(), 0);
    let r = db
        .exec(
            QueryBuilder::search()
                .elements()
                .order_by([DbKeyOrder::Asc("k".into())])
                .offset(1)
                .limit(u64::MAX)
                .query(),
        )
        .unwrap();
    assert_eq!(r.elements.len(), 1);
}
