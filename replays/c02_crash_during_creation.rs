// C02 replay.  The crash-snapshot StorageData wrapper is taken from the demonstration of seeded change
// C03-2 (written by an independent sub-agent).
use agdb::DbError;
use agdb::DbFile;
use agdb::DbImpl;
use agdb::FileStorage;
use agdb::QueryBuilder;
use agdb::StorageData;
use agdb::StorageSlice;
use std::path::Path;
use std::sync::atomic::AtomicBool;
use std::sync::atomic::AtomicU64;
use std::sync::atomic::Ordering;

static ARMED: AtomicBool = AtomicBool::new(false);
static OPS: AtomicU64 = AtomicU64::new(0);
static FAIL_NEXT_WRITE: AtomicBool = AtomicBool::new(false);

fn wal_name(name: &str) -> String {
    let pos = name.rfind('/').map(|p| p + 1).unwrap_or(0);
    let mut wal = name.to_string();
    wal.insert(pos, '.');
    wal
}

fn snapshot_name(name: &str, k: u64) -> String {
    format!("{name}.crash{k}")
}

struct CrashStorage {
    inner: FileStorage,
}

impl CrashStorage {
    fn crash_point(&self) {
        if ARMED.load(Ordering::SeqCst) {
            let k = OPS.fetch_add(1, Ordering::SeqCst);
            let snapshot = snapshot_name(self.inner.name(), k);
            std::fs::copy(self.inner.name(), &snapshot).unwrap();
            let wal = wal_name(self.inner.name());
            if Path::new(&wal).exists() {
                std::fs::copy(wal, wal_name(&snapshot)).unwrap();
            }
        }
    }
}

impl StorageData for CrashStorage {
    fn backup(&self, name: &str) -> Result<(), DbError> {
        self.inner.backup(name)
    }

    fn copy(&self, name: &str) -> Result<Self, DbError> {
        Ok(Self {
            inner: self.inner.copy(name)?,
        })
    }

    fn flush(&mut self) -> Result<(), DbError> {
        self.crash_point();
        self.inner.flush()
    }

    fn len(&self) -> u64 {
        self.inner.len()
    }

    fn name(&self) -> &str {
        self.inner.name()
    }

    fn new(name: &str) -> Result<Self, DbError> {
        Ok(Self {
            inner: FileStorage::new(name)?,
        })
    }

    fn read(&'_ self, pos: u64, value_len: u64) -> Result<StorageSlice<'_>, DbError> {
        self.inner.read(pos, value_len)
    }

    fn rename(&mut self, new_name: &str) -> Result<(), DbError> {
        self.inner.rename(new_name)
    }

    fn resize(&mut self, new_len: u64) -> Result<(), DbError> {
        self.crash_point();
        self.inner.resize(new_len)
    }

    fn write(&mut self, pos: u64, bytes: &[u8]) -> Result<(), DbError> {
        if FAIL_NEXT_WRITE.swap(false, Ordering::SeqCst) {
            return Err(DbError::from(std::io::Error::other(
                "injected write failure",
            )));
        }

        self.crash_point();
        self.inner.write(pos, bytes)
    }
}


// C02: a process death at ANY point while a new database file is being created must leave a file
// that opens again.  On the pinned tree the creation of the top-level structures was not bracketed by
// a storage transaction: every insert committed on its own, and a crash between the root record's
// placeholder and its final content left a file whose root points at record 0.
#[test]
fn crash_at_every_point_of_database_creation() {
    let name = "c02_replay_create.agdb";
    let _ = std::fs::remove_file(name);
    let _ = std::fs::remove_file(wal_name(name));
    OPS.store(0, Ordering::SeqCst);
    ARMED.store(true, Ordering::SeqCst);
    {
        let _db = DbImpl::<CrashStorage>::new(name).unwrap();
    }
    ARMED.store(false, Ordering::SeqCst);
    let points = OPS.load(Ordering::SeqCst);
    assert!(points > 10);
    let mut broken = vec![];
    for k in 0..points {
        let snapshot = snapshot_name(name, k);
        let ok = std::panic::catch_unwind(|| DbFile::new(&snapshot).is_ok()).unwrap_or(false);
        if !ok {
            broken.push(k);
        }
        let _ = std::fs::remove_file(&snapshot);
        let _ = std::fs::remove_file(wal_name(&snapshot));
    }
    let _ = std::fs::remove_file(name);
    let _ = std::fs::remove_file(wal_name(name));
    assert!(broken.is_empty(), "crash points after which the file does not open: {broken:?} of {points}");
}
