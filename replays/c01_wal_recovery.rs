// C01: reopening (or dropping) the single-file storage with an unfinished transaction restores
// exactly the content at the last commit (StorageData::flush).  Three defects of the pinned tree:
//  (a) the log was replayed oldest-first, so two writes to the same range restored the middle value;
//  (b) a zero-length write inside the file was logged as (pos, []) which replays as "truncate to pos";
//  (c) growing the file logged (new_len, []) instead of (old_len, []), so the growth was not undone.
use agdb::FileStorage;
use agdb::StorageData;

fn fresh(name: &str) -> FileStorage {
    let _ = std::fs::remove_file(name);
    let _ = std::fs::remove_file(format!(".{name}"));
    FileStorage::new(name).unwrap()
}

fn cleanup(name: &str) {
    let _ = std::fs::remove_file(name);
    let _ = std::fs::remove_file(format!(".{name}"));
}

#[test]
fn a_overwrites_of_the_same_range_are_undone_newest_first() {
    let name = "c01_replay_a.agdb";
    {
        let mut s = fresh(name);
        s.write(0, b"AAAAAAAA").unwrap();
        s.flush().unwrap(); // commit
        s.write(0, b"BBBBBBBB").unwrap();
        s.write(0, b"CCCCCCCC").unwrap();
    } // drop with an unfinished transaction
    let content = std::fs::read(name).unwrap();
    cleanup(name);
    assert_eq!(content, b"AAAAAAAA");
}

#[test]
fn b_zero_length_interior_write_does_not_truncate() {
    let name = "c01_replay_b.agdb";
    {
        let mut s = fresh(name);
        s.write(0, b"AAAAAAAA").unwrap();
        s.flush().unwrap();
        s.write(4, b"").unwrap();
    }
    let content = std::fs::read(name).unwrap();
    cleanup(name);
    assert_eq!(content, b"AAAAAAAA");
}

#[test]
fn c_growth_is_undone() {
    let name = "c01_replay_c.agdb";
    {
        let mut s = fresh(name);
        s.write(0, b"AAAAAAAA").unwrap();
        s.flush().unwrap();
        s.resize(16).unwrap();
    }
    let content = std::fs::read(name).unwrap();
    cleanup(name);
    assert_eq!(content, b"AAAAAAAA");
}
