// C15: key-value comparisons are type strict: ordering comparisons hold only between values of the
// same type.  On the pinned tree `left > right` used the derived PartialOrd of DbValue, which orders
// different variants by their declaration order: U64(5) > I64(30) was true.
use agdb::Comparison;
use agdb::DbMemory;
use agdb::QueryBuilder;

#[test]
fn ordering_comparison_between_different_types_is_false() {
    let mut db = DbMemory::new("c15_replay").unwrap();
    db.exec_mut(
        QueryBuilder::insert()
            .nodes()
            .values([[("k", 5_u64).into()]])
            .query(),
    )
    .unwrap();
    let r = db
        .exec(
            QueryBuilder::search()
                .elements()
                .where_()
                .key("k")
                .value(Comparison::GreaterThan(30_i64.into()))
                .query(),
        )
        .unwrap();
    assert_eq!(r.elements.len(), 0, "u64 5 > i64 30 must not hold");
    let r = db
        .exec(
            QueryBuilder::search()
                .elements()
                .where_()
                .key("k")
                .value(Comparison::LessThan("zzz".into()))
                .query(),
        )
        .unwrap();
    assert_eq!(r.elements.len(), 0, "u64 5 < string must not hold");
}
