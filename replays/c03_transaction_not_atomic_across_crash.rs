// C03: a crash inside a mutable transaction must expose either the state before the transaction or
// the state after it.  On the pinned tree DbImpl::transaction_mut did not open a storage
// transaction, so every inner operation committed (cleared the log) on its own: a crash between two
// queries of one transaction exposed the first query alone.
use agdb::DbError;
use agdb::DbFile;
use agdb::QueryBuilder;

fn rm(name: &str) {
    let _ = std::fs::remove_file(name);
    let _ = std::fs::remove_file(format!(".{name}"));
}

#[test]
fn crash_between_two_queries_of_one_transaction() {
    let (name, snap) = ("c03_replay.agdb", "c03_replay_snapshot.agdb");
    rm(name);
    rm(snap);
    {
        let mut db = DbFile::new(name).unwrap();
        db.transaction_mut(|t| -> Result<(), DbError> {
            t.exec_mut(QueryBuilder::insert().nodes().count(1).query())?;
            // the process "dies" here: what is on disk at this instant is what a reopen sees
            std::fs::copy(name, snap).unwrap();
            std::fs::copy(format!(".{name}"), format!(".{snap}")).unwrap();
            t.exec_mut(QueryBuilder::insert().nodes().count(1).query())?;
            Ok(())
        })
        .unwrap();
    }
    let nodes = {
        let db = DbFile::new(snap).unwrap();
        db.exec(QueryBuilder::select().node_count().query())
            .unwrap()
            .result
    };
    rm(name);
    rm(snap);
    assert!(
        nodes == 0 || nodes == 2,
        "reopened snapshot shows {nodes} node(s): a partial transaction is visible"
    );
}
