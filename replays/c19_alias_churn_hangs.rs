// C19: repeatedly inserting and removing distinct aliases must never make a later insertion loop
// forever.  On the pinned tree tombstones were never reclaimed while the alias map stayed at its
// minimum capacity (64) and MultiMapImpl::insert_or_replace probed for an Empty slot without a
// full-circle check: once every slot was Valid or Deleted the next alias insert never returned.
use agdb::DbMemory;
use agdb::QueryBuilder;
use std::sync::mpsc::channel;
use std::time::Duration;

#[test]
fn alias_churn_terminates() {
    let (tx, rx) = channel();
    std::thread::spawn(move || {
        let mut db = DbMemory::new("c19_replay").unwrap();
        db.exec_mut(QueryBuilder::insert().nodes().count(1).query())
            .unwrap();
        for i in 0..200 {
            let alias = format!("alias{i}");
            db.exec_mut(QueryBuilder::insert().aliases(alias.as_str()).ids(1).query())
                .unwrap();
            db.exec_mut(QueryBuilder::remove().aliases(alias.as_str()).query())
                .unwrap();
        }
        tx.send(()).unwrap();
    });
    assert!(
        rx.recv_timeout(Duration::from_secs(20)).is_ok(),
        "alias insert/remove churn did not terminate within 20 s"
    );
}
