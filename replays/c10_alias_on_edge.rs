// C10: aliases name nodes only; an alias for an edge must be rejected without effect.
// On the pinned tree InsertAliasesQuery::process resolved any existing id (DbImpl::db_id accepts
// edge ids) and inserted the alias for the edge.
use agdb::DbMemory;
use agdb::QueryBuilder;

#[test]
fn alias_for_an_edge_is_rejected() {
    let mut db = DbMemory::new("c10_replay").unwrap();
    db.exec_mut(QueryBuilder::insert().nodes().count(2).query())
        .unwrap();
    db.exec_mut(QueryBuilder::insert().edges().from(1).to(2).query())
        .unwrap();
    let r = db.exec_mut(QueryBuilder::insert().aliases("e").ids(-3).query());
    assert!(r.is_err(), "alias for edge -3 was accepted");
    assert!(db.exec(QueryBuilder::select().ids("e").query()).is_err());
}
