#!/opt/veriftools/pyvenv/bin/python
import json, sys, glob, jsonschema
jsonschema.validate(json.load(open('/verif/MANIFEST.json')), json.load(open('/root/.vp/MANIFEST.schema.json')))
S = json.load(open('/root/.vp/EVIDENCE.schema.json'))
for f in sorted(glob.glob('/verif/evidence/*.json')):
    jsonschema.validate(json.load(open(f)), S)
print('manifest + %d evidence files valid' % len(glob.glob('/verif/evidence/*.json')))
