#!/bin/bash
# usage: tools/confirm_seed.sh <seed dir>    (confirms a seeded change in a scratch copy of /repo HEAD)
#  1. the patch applies and the crate's existing tests still pass with it
#  2. the demonstration fails with the patch and passes without it
# demo.rs = integration test for agdb/tests; demo.diff = patch that adds a #[cfg(test)] mod seeded_demo_* to the source
D=$(readlink -f "$1"); N=$(basename "$D")
S=/var/tmp/seed-confirm-$N; rm -rf "$S"; mkdir -p "$S"
export CARGO_NET_OFFLINE=true CARGO_TARGET_DIR=/var/tmp/agdb-verif-replay-target
RAFT=0; grep -q "agdb_server/src/raft.rs" "$D/patch.diff" && RAFT=1
if [ $RAFT = 1 ]; then
  # the raft module is checked in the harness crate /verif builds for Kani (raft.rs copied in, clock/DbId shims):
  # its own unit tests are disabled there, so the "existing tests" are run in a copy of the whole workspace
  rsync -a --exclude target /repo/ "$S/"; CRATE=agdb_server; FILTER="raft::"
  export CARGO_TARGET_DIR=/var/tmp/agdb-verif-server-target
else
  git -C /repo archive HEAD agdb agdb_derive | tar -x -C "$S"
  cp /repo/Cargo.lock "$S/"
  printf '[workspace]\nresolver = "2"\nmembers = ["agdb", "agdb_derive"]\n' > "$S/Cargo.toml"
  CRATE=agdb; FILTER=""
fi
cd "$S"
# `git archive | tar` gives every file the commit's mtime: with a shared target directory cargo would then reuse
# the artifacts of the previous (patched) run for the "without patch" demo. Touch the sources first.
find "$S" -name '*.rs' -exec touch {} +
git init -q . 2>/dev/null; git add -A >/dev/null 2>&1; git -c user.email=a@b -c user.name=x commit -qm base >/dev/null 2>&1
if [ -f "$D/demo.diff" ]; then
  git apply "$D/demo.diff" || { echo "$N: DEMO PATCH DOES NOT APPLY"; rm -rf "$S"; exit 1; }
  if [ $RAFT = 1 ]; then TGT="--bins"; else TGT="--lib"; fi
  run_demo() { timeout 2400 cargo test --offline -p $CRATE $TGT seeded_demo 2>&1 | grep -E "^test result" | head -1; }
else
  DEMO=seeded_demo_$(echo $N | tr 'A-Z-' 'a-z_')
  cp "$D/demo.rs" "$S/agdb/tests/$DEMO.rs"
  run_demo() { timeout 900 cargo test --offline -p agdb --test $DEMO 2>&1 | grep -E "^test result" | tail -1; }
fi
without=$(run_demo)
git add -A >/dev/null 2>&1; git -c user.email=a@b -c user.name=x commit -qm demo >/dev/null 2>&1
if ! git apply "$D/patch.diff"; then echo "$N: PATCH DOES NOT APPLY"; rm -rf "$S"; exit 1; fi
with=$(run_demo)
# existing tests with the patch, without the demo
if [ -f "$D/demo.diff" ]; then git apply -R "$D/demo.diff"; else rm "$S/agdb/tests/$DEMO.rs"; fi
if [ $RAFT = 1 ]; then
  suite=$(timeout 2400 cargo nextest run -p agdb_server --offline --no-fail-fast raft:: 2>&1 | grep -E "Summary" | tail -1)
else
  timeout 2400 cargo nextest run -p agdb -p agdb_derive --offline --no-fail-fast > "$S/suite.out" 2>&1
  suite=$(grep -E "Summary" "$S/suite.out" | tail -1)
  # tests/test_db/test_file.rs helper tests share one fixed file name across all integration-test binaries and fail at
  # random when nextest runs the binaries in parallel (with or without any patch): name the failures and re-run them alone
  failed=$(grep -E "^\s+FAIL " "$S/suite.out" | awk '{print $NF}' | sort -u | tr '\n' ' ')
  if [ -n "$failed" ]; then
    rerun=""
    for t in $failed; do
      if timeout 600 cargo nextest run -p agdb --offline -j 1 -E "test(=$t)" > "$S/rerun.out" 2>&1; then rerun="$rerun $t:passes-alone"; else rerun="$rerun $t:FAILS-alone"; fi
    done
    suite="$suite | failed in the parallel run: $failed| re-run alone:$rerun"
  fi
fi
echo "$N | demo without patch: $without | demo with patch: $with | existing tests with patch: $suite"
cd /; rm -rf "$S"
