#!/bin/bash
# usage: tools/confirm_seed.sh <seed dir>    (confirms a seeded change in a scratch copy of /repo HEAD)
#  1. the patch applies and the crate's existing tests still pass with it
#  2. the demonstration fails with the patch and passes without it
D=$(readlink -f "$1"); N=$(basename "$D")
S=/var/tmp/seed-confirm-$N; rm -rf "$S"; mkdir -p "$S"
git -C /repo archive HEAD agdb agdb_derive | tar -x -C "$S"
cp /repo/Cargo.lock "$S/"
printf '[workspace]\nresolver = "2"\nmembers = ["agdb", "agdb_derive"]\n' > "$S/Cargo.toml"
export CARGO_NET_OFFLINE=true CARGO_TARGET_DIR=/var/tmp/agdb-verif-replay-target
DEMO=seeded_demo_$(echo $N | tr 'A-Z-' 'a-z_')
cp "$D/demo.rs" "$S/agdb/tests/$DEMO.rs"
cd "$S"
without=$(timeout 900 cargo test --offline -p agdb --test $DEMO 2>&1 | grep -E "^test result" | tail -1)
git init -q . && git add -A >/dev/null && git -c user.email=a@b -c user.name=x commit -qm base
if ! git apply "$D/patch.diff"; then echo "$N: PATCH DOES NOT APPLY"; rm -rf "$S"; exit 1; fi
with=$(timeout 900 cargo test --offline -p agdb --test $DEMO 2>&1 | grep -E "^test result" | tail -1)
rm "$S/agdb/tests/$DEMO.rs"
suite=$(timeout 2400 cargo nextest run -p agdb -p agdb_derive --offline --no-fail-fast 2>&1 | grep -E "Summary" | tail -1)
echo "$N | demo without patch: $without | demo with patch: $with | existing tests with patch: $suite"
cd /; rm -rf "$S"
