"""Minimal Rust lexing helpers: a same-length 'mask' of a source text in which comments and the
contents of string/char literals are blanked, plus bracket matching on that mask.  Enough to locate
items by brace matching without a parser; anything it cannot locate is reported as a lost anchor
(undecided), never guessed."""
import re


class AnchorError(Exception):
    """an item / loop / regex anchor could not be located in the current source"""


def mask(src: str) -> str:
    out = list(src)
    i, n = 0, len(src)

    def blank(a, b):
        for k in range(a, b):
            if out[k] != "\n":
                out[k] = " "

    while i < n:
        c = src[i]
        if c == "/" and i + 1 < n and src[i + 1] == "/":
            j = src.find("\n", i)
            j = n if j < 0 else j
            blank(i, j)
            i = j
        elif c == "/" and i + 1 < n and src[i + 1] == "*":
            depth, j = 1, i + 2
            while j < n and depth:
                if src.startswith("/*", j):
                    depth += 1
                    j += 2
                elif src.startswith("*/", j):
                    depth -= 1
                    j += 2
                else:
                    j += 1
            blank(i, j)
            i = j
        elif c == '"' or (c in "br" and re.match(r'(b?r#*"|b")', src[i:i + 12]) and (i == 0 or not (src[i - 1].isalnum() or src[i - 1] == "_"))):
            m = re.match(r'b?(r(#*))?"', src[i:i + 12])
            raw, hashes = m.group(1) is not None, m.group(2) or ""
            j = i + m.end()
            if raw:
                end = src.find('"' + hashes, j)
                end = n if end < 0 else end
                blank(j, end)
                i = end + 1 + len(hashes)
            else:
                while j < n and src[j] != '"':
                    j += 2 if src[j] == "\\" else 1
                blank(i + m.end(), j)
                i = j + 1
        elif c == "'":
            # char literal or lifetime
            m = re.match(r"'(\\.[^']*|[^\\'])'", src[i:i + 12])
            if m:
                blank(i + 1, i + m.end() - 1)
                i += m.end()
            else:
                i += 1
        else:
            i += 1
    return "".join(out)


OPEN = {"(": ")", "[": "]", "{": "}"}
CLOSE = {v: k for k, v in OPEN.items()}


def match_close(m: str, i: int) -> int:
    """m[i] is an opening bracket; return index of its matching close bracket."""
    assert m[i] in OPEN, (i, m[i])
    stack = []
    for k in range(i, len(m)):
        ch = m[k]
        if ch in OPEN:
            stack.append(ch)
        elif ch in CLOSE:
            if not stack or stack[-1] != CLOSE[ch]:
                raise AnchorError(f"unbalanced bracket at offset {k}")
            stack.pop()
            if not stack:
                return k
    raise AnchorError("unterminated bracket")


def next_at_depth0(m: str, i: int, chars: str, end=None) -> int:
    """first index >= i of one of `chars` at (), [] depth 0 (braces are not entered either unless
    they are in `chars`)."""
    depth = 0
    end = len(m) if end is None else end
    k = i
    while k < end:
        ch = m[k]
        if depth == 0 and ch in chars:
            return k
        if ch in "([":
            depth += 1
        elif ch in ")]":
            depth -= 1
        elif ch == "{" and "{" not in chars:
            k = match_close(m, k)
        k += 1
    return -1
