#!/usr/bin/env python3
"""usage: tools/collect_seed.py <property id> [other property ids to run too]
copies /tmp/wt-<id>/seeded/<k> to /verif/seeded/<id>-<k>, runs the quick checks against each change
(tools/run_seed.sh), writes meta.json, removes the worktree."""
import json, os, re, shutil, subprocess, sys
V = os.path.dirname(os.path.dirname(os.path.abspath(__file__)))
pid = sys.argv[1]; others = sys.argv[2:]
wt = f"/tmp/wt-{pid}"
src = os.path.join(wt, "seeded")
for k in sorted(os.listdir(src)) if os.path.isdir(src) else []:
    d = os.path.join(src, k)
    if not os.path.exists(os.path.join(d, "patch.diff")):
        continue
    dst = os.path.join(V, "seeded", f"{pid}-{k}")
    if os.path.exists(dst):
        print("exists", dst); continue
    shutil.copytree(d, dst)
    ids = [pid] + others
    out = subprocess.run([os.path.join(V, os.environ.get("SEED_RUNNER", "tools/run_seed.sh")), dst] + ids, capture_output=True, text=True).stdout
    print(out.strip())
    caught_by = []
    status = {}
    for i in ids:
        f = os.path.join(dst, f"check_{i}.out")
        t = open(f).read() if os.path.exists(f) else ""
        viol = re.findall(r"^# failed obligation (.*?) in ", t, re.M)
        if "VIOLATION" in t:
            caught_by += [f"{i}: " + (viol[0] if viol else "violation")]
        m = re.search(r"\[quick\] (\w+)", t)
        status[i] = m.group(1) if m else "?"
    readme = open(os.path.join(dst, "README.md")).read() if os.path.exists(os.path.join(dst, "README.md")) else ""
    meta = {"id": f"{pid}-{k}", "breaks_property": pid,
            "written_by": "independent sub-agent (given only the property text and a scratch worktree)",
            "needs_to_manifest": "see README.md",
            "checks_run": [f"./check {i} --tier quick" for i in ids], "check_status": status,
            "caught": bool(caught_by), "caught_by_or_reason_missed": "; ".join(caught_by) if caught_by else "TODO",
            "confirmation": "see confirm.log in this directory (tools/confirm_seed.sh: existing agdb tests with the patch, demo with and without the patch)"}
    json.dump(meta, open(os.path.join(dst, "meta.json"), "w"), indent=1)
subprocess.run(["git", "-C", "/repo", "worktree", "remove", "--force", wt])
