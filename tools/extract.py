"""Mechanical extraction of functions/items from /repo into a Verus unit.

A unit template (contracts/<unit>.rs.in) is ordinary Rust/Verus text with directive lines:

  //@ include <path relative to contracts/>
  //@ item <file> | <struct|enum> <Name> [| derive]
  //@ fn <file> | <container header or -> | <fn name> [| ret=<name>] [| as=<new name>] [| nth=<k>]
  //@   spec            lines that follow are spliced between signature and body
  //@   loop <n>        ... after the header of the n-th loop (1-based, textual order)
  //@   iter <n> <name> names the ghost iterator of the n-th loop (`for x in name: expr`)
  //@   entry           ... right after the opening brace of the body
  //@   after <k> /re/  ... right after the end of the k-th match of re in the body
  //@   before <k> /re/ ... right before the start of the k-th match
  //@ end

Signature and body are copied verbatim from the working tree, then the documented rewrite rules
(R1 err-text, R2 attributes/visibility, R6 let-chains, R7 named return, R8 Self::Item expansion, R9 `|_|` closure parameter named, R13 closure contract; opt-in: R10, R12, R14, R15, R16) are applied by pattern and
counted.  Everything the template adds is ghost (requires/ensures/invariant/decreases/proof).
A directive whose anchor cannot be found raises AnchorError => the unit is 'undecided'.
"""
import json
import os
import re
import sys

sys.path.insert(0, os.path.dirname(__file__))
from rustlex import AnchorError, mask, match_close, next_at_depth0  # noqa: E402


class Unsupported(Exception):
    """construct outside the accepted subset => undecided"""


def _hdr_regex(header: str):
    parts = header.split()
    return re.compile(r"\b" + r"\s+".join(re.escape(p) for p in parts) + r"\s*(?=\{|where\b)")


def _depth_at(m: str, start: int, pos: int) -> int:
    d = 0
    for k in range(start, pos):
        if m[k] == "{":
            d += 1
        elif m[k] == "}":
            d -= 1
    return d


def locate_container(src, m, header):
    if header == "-":
        return 0, len(src)
    rx = _hdr_regex(header)
    for mt in rx.finditer(m):
        if _depth_at(m, 0, mt.start()) != 0:
            continue
        ob = m.find("{", mt.end() - 1)
        if ob < 0:
            continue
        cb = match_close(m, ob)
        return ob + 1, cb
    raise AnchorError(f"container not found: {header!r}")


def locate_fn(src, m, cstart, cend, name, nth=1):
    rx = re.compile(r"\bfn\s+" + re.escape(name) + r"\b\s*[<(]")
    seen = 0
    for mt in rx.finditer(m, cstart, cend):
        if _depth_at(m, cstart, mt.start()) != 0:
            continue
        seen += 1
        if seen < nth:
            continue
        fn_pos = mt.start()
        ob = next_at_depth0(m, fn_pos, "{;", cend)
        if ob < 0:
            raise AnchorError(f"fn {name}: no body")
        if m[ob] == ";":
            return fn_pos, ob, ob  # declaration only
        cb = match_close(m, ob)
        return fn_pos, ob, cb
    raise AnchorError(f"fn not found: {name}")


# ---------------------------------------------------------------- rewrite rules

def rule_R2(text, counts):
    """drop attribute lines and doc comments"""
    out = []
    for line in text.split("\n"):
        s = line.strip()
        if re.match(r"#\[(allow|cfg_attr|inline|track_caller|expect|must_use|doc)\b.*\]$", s) or s.startswith("///"):
            counts["R2"] = counts.get("R2", 0) + 1
            continue
        out.append(line)
    return "\n".join(out)


def _enclosing_callee(m, pos):
    """text before the nearest unmatched '(' to the left of pos (the callee of the enclosing call)"""
    depth = 0
    k = pos - 1
    while k >= 0:
        ch = m[k]
        if ch in ")]}":
            depth += 1
        elif ch in "([{":
            if depth == 0:
                return (m[:k].rstrip(), k) if ch == "(" else (None, k)
            depth -= 1
        k -= 1
    return None, -1


def _in_error_ctor(m, pos):
    """is pos (transitively) inside the argument list of DbError::<ctor>(...), .expect(...), panic!(...)"""
    while pos > 0:
        callee, k = _enclosing_callee(m, pos)
        if k < 0:
            return False
        if callee is not None and re.search(r"(DbError::\w+|\.expect|panic!|\.ok_or|\.ok_or_else|\.map_err)$", callee):
            if re.search(r"(DbError::\w+|\.expect|panic!)$", callee):
                return True
        pos = k
    return False


def rule_R1(text, counts):
    """error-message text -> err_msg(): a format!(..) or string literal that is (transitively) an
    argument of a DbError::* constructor, .expect(..) or panic!(..)"""
    while True:
        m = mask(text)
        mt = re.search(r"\bformat!\s*\(", m)
        if not mt:
            break
        close = match_close(m, mt.end() - 1)
        if not _in_error_ctor(m, mt.start()):
            raise Unsupported("format! outside an error/panic message")
        text = text[:mt.start()] + "err_msg()" + text[close + 1:]
        counts["R1"] = counts.get("R1", 0) + 1
    pos = 0
    while True:
        m = mask(text)
        q1 = m.find('"', pos)
        if q1 < 0:
            break
        q2 = m.find('"', q1 + 1)
        if q2 < 0:
            raise Unsupported("unterminated literal")
        if _in_error_ctor(m, q1):
            start = q1 - 1 if q1 > 0 and text[q1 - 1] in "br" else q1
            callee, _k = _enclosing_callee(m, q1)
            # .expect(..)/panic!(..) take a &str, the DbError constructors an owned String
            rep = "err_str()" if callee is not None and re.search(r"(\.expect|panic!)$", callee) else "err_msg()"
            text = text[:start] + rep + text[q2 + 1:]
            counts["R1"] = counts.get("R1", 0) + 1
            pos = start + 9
        else:
            pos = q2 + 1
    return text


def _split_top_and(cond_m, cond):
    parts, depth, last, k = [], 0, 0, 0
    while k < len(cond_m):
        ch = cond_m[k]
        if ch in "([{":
            depth += 1
        elif ch in ")]}":
            depth -= 1
        elif depth == 0 and cond_m.startswith("&&", k):
            parts.append(cond[last:k].strip())
            last = k + 2
            k += 2
            continue
        k += 1
    parts.append(cond[last:].strip())
    return parts


def rule_R6(text, counts):
    """if A && let P = E { B }   (no else)  =>  if A { if let P = E { B } }"""
    start = 0
    while True:
        m = mask(text)
        mt = re.compile(r"\bif\b").search(m, start)
        if not mt:
            return text
        ob = next_at_depth0(m, mt.end(), "{")
        if ob < 0:
            start = mt.end()
            continue
        cond, cond_m = text[mt.end():ob], m[mt.end():ob]
        parts = _split_top_and(cond_m, cond)
        has_let = [bool(re.match(r"let\b", p)) for p in parts]
        if len(parts) < 2 or not any(has_let):
            start = mt.end()
            continue
        cb = match_close(m, ob)
        if re.match(r"\s*else\b", m[cb + 1:]):
            raise Unsupported("let-chain with else")
        groups, cur = [], []
        for p, hl in zip(parts, has_let):
            if hl:
                if cur:
                    groups.append(" && ".join(cur))
                    cur = []
                groups.append(p)
            else:
                cur.append(p)
        if cur:
            groups.append(" && ".join(cur))
        body = text[ob:cb + 1]
        new = ""
        for g in groups[:-1]:
            new += f"if {g} {{ "
        new += f"if {groups[-1]} {body}" + " }" * (len(groups) - 1)
        text = text[:mt.start()] + new + text[cb + 1:]
        counts["R6"] = counts.get("R6", 0) + 1
        start = mt.start() + 2


def rule_R16(text, counts):
    """for (A, B) in E.enumerate() { BODY }   =>   the definition of `for` over `Enumerate<I>`:
         { let mut enum_iter = E; let mut enum_count: usize = 0;
           loop { let enum_item = enum_iter.next(); if enum_item.is_none() { break; }
                  let B = enum_item.unwrap(); let A = enum_count; enum_count += 1;   // Enumerate::next
                  BODY } }
    (A, B plain identifiers; BODY without `continue`, whose meaning would not change but is not needed).  The counter
    is incremented where std's Enumerate::next increments it, so its overflow check is the one of the real loop."""
    start = 0
    while True:
        m = mask(text)
        mt = re.compile(r"\bfor\s*\(\s*(\w+)\s*,\s*(\w+)\s*\)\s*in\b").search(m, start)
        if not mt:
            return text
        ob = next_at_depth0(m, mt.end(), "{")
        if ob < 0:
            raise AnchorError("R16: loop without body")
        expr = text[mt.end():ob].strip()
        if not expr.endswith(".enumerate()"):
            start = mt.end()
            continue
        expr = expr[:-len(".enumerate()")]
        cb = match_close(m, ob)
        if re.search(r"\bcontinue\b", m[ob:cb]):
            raise Unsupported("R16: `continue` inside an enumerate() loop")
        a, b = mt.group(1), mt.group(2)
        new = ("{ let mut enum_iter = " + expr + "; let mut enum_count: usize = 0;\n        loop {\n"
               "            let enum_item = enum_iter.next(); if enum_item.is_none() { break; }\n"
               f"            let {b} = enum_item.unwrap(); let {a} = enum_count; enum_count += 1;"
               + text[ob + 1:cb] + "} }")
        text = text[:mt.start()] + new + text[cb + 1:]
        counts["R16"] = counts.get("R16", 0) + 1
        start = mt.start() + 4


def rule_R7(sig, ret, counts):
    """-> T   =>   -> (ret: T)"""
    m = mask(sig)
    # find '->' at paren depth 0 (the function's own return arrow is the last one at depth 0
    # before an optional where clause)
    depth, arrow = 0, -1
    for k, ch in enumerate(m):
        if ch in "([<" and not (ch == "<" and k > 0 and m[k - 1] == "-"):
            depth += 1
        elif ch in ")]":
            depth -= 1
        elif ch == ">" and k > 0 and m[k - 1] != "-":
            depth -= 1
        elif ch == "-" and m[k:k + 2] == "->" and depth == 0:
            arrow = k
    if arrow < 0:
        raise AnchorError("ret= given but signature has no return type")
    wm = re.search(r"\bwhere\b", m[arrow:])
    end = arrow + wm.start() if wm else len(sig)
    ty = sig[arrow + 2:end].strip()
    counts["R7"] = counts.get("R7", 0) + 1
    return sig[:arrow] + f"-> ({ret}: {ty})" + (" " + sig[end:] if wm else "")


# ---------------------------------------------------------------- splicing

def loop_headers(body_m):
    """offsets of the '{' opening the body of each loop, textual order"""
    res = []
    for mt in re.finditer(r"\b(loop|while|for)\b", body_m):
        ob = next_at_depth0(body_m, mt.end(), "{")
        if ob < 0:
            raise AnchorError("loop without body")
        res.append(ob)
    return res


def apply_closures(body, sections, counts):
    for kind, arg, _t in sections:
        if kind != "closure":
            continue
        k, rx, params, ret, spec = arg[:5]
        optional = len(arg) > 5 and arg[5]
        m = mask(body)
        hits = [h for h in re.finditer(rx, body) if m[h.start()] == "|"]
        if len(hits) < k and optional:
            continue
        if len(hits) < k:
            raise AnchorError(f"closure anchor /{rx}/ #{k} not found ({len(hits)} matches)")
        h = hits[k - 1]
        # closure = |params| body-expression, the body ends at the unmatched closing bracket / comma
        bar2 = m.index("|", h.start() + 1)
        depth, e = 0, bar2 + 1
        while e < len(m):
            ch = m[e]
            if ch in "([{":
                depth += 1
            elif ch in ")]}":
                if depth == 0:
                    break
                depth -= 1
            elif ch == "," and depth == 0:
                break
            e += 1
        expr = body[bar2 + 1:e].strip()
        new = f"|{params}| -> ({ret}) {spec} {{ {expr} }}"
        body = body[:h.start()] + new + body[e:]
        counts["R13"] = counts.get("R13", 0) + 1
    return body


def splice(body, sections):
    sections = [x for x in sections if x[0] != "closure"]
    m = mask(body)
    inserts = []  # (offset, text)
    loops = None
    for kind, arg, text in sections:
        if kind == "entry":
            inserts.append((1, "\n" + text + "\n"))
        elif kind == "loop":
            loops = loops if loops is not None else loop_headers(m)
            n = int(arg)
            if n < 1 or n > len(loops):
                raise AnchorError(f"loop {n} not found ({len(loops)} loops)")
            inserts.append((loops[n - 1], "\n" + text + "\n"))
        elif kind == "iter":
            n, name = arg
            kws = [mt for mt in re.finditer(r"\b(loop|while|for)\b", m)]
            if n < 1 or n > len(kws) or kws[n - 1].group(1) != "for":
                raise AnchorError(f"iter {n}: not a for loop")
            im = re.compile(r"\bin\b").search(m, kws[n - 1].end())
            if not im:
                raise AnchorError("for without in")
            inserts.append((im.end(), f" {name}:"))
        elif kind in ("after", "before"):
            k, rx = arg
            hits = [h for h in re.finditer(rx, body) if m[h.start()] != " " or body[h.start()] == " "]
            if len(hits) < k:
                raise AnchorError(f"{kind} anchor /{rx}/ #{k} not found ({len(hits)} matches)")
            h = hits[k - 1]
            inserts.append((h.end() if kind == "after" else h.start(), "\n" + text + "\n"))
        else:
            raise ValueError(kind)
    # stable: later directives at the same offset come later in the text
    out, last = [], 0
    for off, text in sorted(inserts, key=lambda t: t[0]):
        out.append(body[last:off])
        out.append(text)
        last = off
    out.append(body[last:])
    return "".join(out)


# ---------------------------------------------------------------- template processing

def _read(repo, rel, cache):
    if rel not in cache:
        p = os.path.join(repo, rel)
        if not os.path.exists(p):
            raise AnchorError(f"source file missing: {rel}")
        src = open(p, encoding="utf-8").read()
        cache[rel] = (src, mask(src))
    return cache[rel]


def expand_includes(path, contracts_dir, seen=()):
    lines = []
    for line in open(path, encoding="utf-8").read().split("\n"):
        mt = re.match(r"\s*//@\s*include\s+(\S+)", line)
        if mt:
            inc = os.path.join(contracts_dir, mt.group(1))
            if inc in seen:
                raise ValueError("include cycle")
            lines.extend(expand_includes(inc, contracts_dir, seen + (inc,)))
        else:
            lines.append(line)
    return lines


def build_unit(template, repo, out_path, contracts_dir=None, vacuity=False):
    contracts_dir = contracts_dir or os.path.dirname(template)
    lines = expand_includes(template, contracts_dir)
    cache, counts, fns, out = {}, {}, [], []
    i = 0
    while i < len(lines):
        line = lines[i]
        mt = re.match(r"\s*//@\s*(fn|item)\s+(.*)$", line)
        if not mt:
            out.append(line)
            i += 1
            continue
        fields = [f.strip() for f in mt.group(2).split("|")]
        if mt.group(1) == "item":
            rel, what = fields[0], fields[1]
            opts = fields[2:]
            src, m = _read(repo, rel, cache)
            kind, name = what.split()
            rx = re.compile(r"\b" + kind + r"\s+" + re.escape(name) + r"\b")
            hit = None
            for h in rx.finditer(m):
                if _depth_at(m, 0, h.start()) == 0:
                    hit = h
                    break
            if not hit and "nested" in opts:
                # opt-in: an item declared inside a `mod { .. }` block (first textual match of the declaration)
                for h in rx.finditer(m):
                    hit = h
                    break
            if not hit:
                raise AnchorError(f"item not found: {what} in {rel}")
            e = next_at_depth0(m, hit.end(), "{;")
            if m[e] == "{":
                e = match_close(m, e)
            text = rule_R2(src[hit.start():e + 1], counts)
            text = re.sub(r"\bpub\s*\(crate\)\s*", "pub ", text)
            if "pubfields" in opts:
                # R2 (visibility has no semantics): make every named field public so that public
                # contracts may mention it
                head, brace, rest = text.partition("{")
                rest = re.sub(r"(?m)^(\s*)(?:pub\s*(?:\([^)]*\))?\s+)?(\w+)\s*:", r"\1pub \2:", rest)
                text = head + brace + rest
                counts["R2"] = counts.get("R2", 0) + 1
            if "derive" in opts:
                # take the derive attribute immediately preceding the item, if any
                pre = src[:hit.start()]
                dm = list(re.finditer(r"#\[derive\(([^\]]*)\)\]", pre))
                if dm and not re.search(r"\b(struct|enum|fn|impl|trait)\b", mask(pre[dm[-1].end():])):
                    text = dm[-1].group(0) + "\n" + text
            out.append(f"// >>> item {rel} :: {what}")
            for o in opts:
                if o.startswith("attr="):
                    out.append(o[5:])  # verifier attribute (ghost): e.g. #[verifier::reject_recursive_types(D)]
            if text.startswith("#["):
                # derive attribute first, then the (public) item
                attr, _, rest_ = text.partition("\n")
                out.append(attr)
                out.append("pub " + rest_)
            else:
                out.append("pub " + text)
            out.append("// <<<")
            i += 1
            continue
        # fn directive
        rel, container, name = fields[0], fields[1], fields[2]
        opts = dict((o.split("=", 1) + [""])[:2] for o in fields[3:])
        sections, cur = [], None
        i += 1
        while True:
            if i >= len(lines):
                raise ValueError(f"unterminated //@ fn {name}")
            sl = lines[i]
            sm = re.match(r"\s*//@\s*(spec|loop|iter|closure|entry|after|before|end)\b\s*(.*)$", sl)
            if sm:
                if cur:
                    sections.append((cur[0], cur[1], "\n".join(cur[2])))
                    cur = None
                k, rest = sm.group(1), sm.group(2).strip()
                if k == "end":
                    i += 1
                    break
                if k in ("after", "before"):
                    am = re.match(r"(\d+)\s+/(.*)/\s*$", rest)
                    if not am:
                        raise ValueError(f"bad anchor: {sl}")
                    cur = [k, (int(am.group(1)), am.group(2)), []]
                elif k == "loop":
                    cur = [k, rest, []]
                elif k == "closure":
                    # `//@ closure <k> /regex matching `|params|`/ | <typed params> | <ret name: type> | <ghost spec>`
                    # R13: the k-th closure whose parameter list matches gets its parameters typed, its result
                    # named and a ghost contract; the body expression is kept verbatim (wrapped in braces)
                    # `?<k>` makes the directive optional: a body that no longer contains the closure is verified
                    # without it (its remaining calls then have to satisfy their contracts on their own)
                    cm = re.match(r"(\??)(\d+)\s+/(.*?)/\s*\|(.*?)\|(.*?)\|(.*)$", rest)
                    if not cm:
                        raise ValueError(f"bad closure directive: {sl}")
                    sections.append(("closure", (int(cm.group(2)), cm.group(3), cm.group(4).strip(), cm.group(5).strip(), cm.group(6).strip(), cm.group(1) == "?"), ""))
                    cur = None
                elif k == "iter":
                    # `//@ iter <n> <name>`: name the ghost iterator of the n-th loop (a `for`): ghost only
                    n_, name_ = rest.split()
                    sections.append(("iter", (int(n_), name_), ""))
                    cur = None
                else:
                    cur = [k, None, []]
            else:
                if cur is None:
                    raise ValueError(f"text outside a section in //@ fn {name}: {sl}")
                cur[2].append(sl)
            i += 1
        src, m = _read(repo, rel, cache)
        cs, ce = locate_container(src, m, container)
        fn_pos, ob, cb = locate_fn(src, m, cs, ce, name, int(opts.get("nth", "1") or 1))
        sig = src[fn_pos:ob].rstrip()
        body = src[ob:cb + 1] if cb > ob else ";"
        local = {}
        body = rule_R2(body, local)
        body = rule_R1(body, local)
        body = rule_R6(body, local)
        if opts.get("enum") == "desugar":
            body = rule_R16(body, local)
        if opts.get("expect") == "unchecked":
            # R10 (opt-in, counted): `.expect(msg)` -> `.expect_unchecked(msg)`, a prelude method
            # without precondition: a panic from this expect is NOT decided by the unit (the model
            # continues with an arbitrary value, which can only make obligations harder, never easier)
            m10 = mask(body)
            hits = [h.start() for h in re.finditer(r"\.expect\(", m10)]
            for h in reversed(hits):
                body = body[:h] + ".expect_unchecked(" + body[h + 8:]
            if hits:
                local["R10"] = local.get("R10", 0) + len(hits)
        if opts.get("le") == "model":
            # R14 (opt-in, counted): `.to_le_bytes()` -> `.to_le_bytes_model()`, a prelude trait method with the
            # same meaning for i64/u64/f64 (std's return type `[u8; size_of::<T>()]` cannot be named in an
            # assume_specification of this Verus version)
            m14 = mask(body)
            hits = [h.start() for h in re.finditer(r"\.to_le_bytes\(\)", m14)]
            for h in reversed(hits):
                body = body[:h] + ".to_le_bytes_model()" + body[h + len(".to_le_bytes()"):]
            if hits:
                local["R14"] = local.get("R14", 0) + len(hits)
        if opts.get("r12"):
            # R12 (opt-in, counted): `T::default()` -> `T(0)` for a tuple struct `pub struct T(pub i64);`
            # that derives Default (the derive expands to exactly that); the definition is checked in the
            # source file before rewriting, otherwise the anchor is lost
            tname = opts["r12"]
            dm = re.search(r"#\[derive\(([^\]]*)\)\]\s*(?:#\[[^\]]*\]\s*)*pub struct " + re.escape(tname) + r"\(pub i64\);", src)
            if not dm or "Default" not in dm.group(1):
                raise AnchorError(f"R12: {tname} is not `#[derive(.. Default ..)] pub struct {tname}(pub i64);` any more")
            m12 = mask(body)
            hits = [h.start() for h in re.finditer(re.escape(tname) + r"::default\(\)", m12)]
            for h in reversed(hits):
                body = body[:h] + tname + "(0)" + body[h + len(tname) + len("::default()"):]
            if hits:
                local["R12"] = local.get("R12", 0) + len(hits)
        # R9: an ignored closure parameter `|_|` is given a name (Verus accepts only variables there)
        m9 = mask(body)
        hits = [h.start() for h in re.finditer(r"\|_\|", m9)]
        for h in reversed(hits):
            body = body[:h] + "|_ignored|" + body[h + 3:]
        if hits:
            local["R9"] = local.get("R9", 0) + len(hits)
        if "Self::Item" in sig:
            # R8: the associated type is replaced by its definition in the same impl block
            tm = re.search(r"\btype\s+Item\s*=\s*([^;]+);", m[cs:ce])
            if not tm:
                raise AnchorError("Self::Item used but the impl has no `type Item = ...;`")
            sig = sig.replace("Self::Item", src[cs:ce][tm.start(1):tm.end(1)].strip())
            local["R8"] = local.get("R8", 0) + 1
        if opts.get("mono"):
            # R15 (opt-in, counted): a type parameter of the function itself is instantiated with an opaque type of
            # the unit prelude (`mono=Store:AnyStore`): `<Store: Bound>` is dropped from the signature and `Store`
            # is replaced by `AnyStore` in signature and body.  Needed where this Verus loses closure contracts
            # (Iterator::map) inside type-generic functions (T10); the prelude type is `external_body`, so nothing
            # but the bound is known about it.
            par, ty = opts["mono"].split(":")
            gm = re.search(r"<\s*" + re.escape(par) + r"\s*:\s*[\w:]+\s*>", sig)
            if not gm:
                raise AnchorError(f"R15: `<{par}: Bound>` is not the function's only generic parameter list any more")
            sig = sig[:gm.start()] + sig[gm.end():]
            sig = re.sub(r"\b" + re.escape(par) + r"\b", ty, sig)
            body = re.sub(r"\b" + re.escape(par) + r"\b", ty, body)
            local["R15"] = local.get("R15", 0) + 1
        if opts.get("ret"):
            sig = rule_R7(sig, opts["ret"], local)
        if opts.get("as"):
            sig = re.sub(r"\bfn\s+" + re.escape(name) + r"\b", "fn " + opts["as"], sig, count=1)
        for k, v in local.items():
            counts[k] = counts.get(k, 0) + v
        spec = "\n".join(t for (k, a, t) in sections if k == "spec")
        rest = [s for s in sections if s[0] != "spec"]
        if vacuity and body != ";":
            rest = [("entry", None, "proof { assert(false); } /*@ VACUITY." + (opts.get("as") or name) + " */")] + rest
        if body != ";":
            body = apply_closures(body, rest, local)
            counts["R13"] = counts.get("R13", 0) + local.get("R13", 0) if local.get("R13") else counts.get("R13", 0)
            body = splice(body, rest)
        l0 = src.count("\n", 0, fn_pos) + 1
        l1 = src.count("\n", 0, cb) + 1
        gen_start = sum(x.count("\n") + 1 for x in out) + 1
        out.append(f"// >>> fn {rel} :: {container} :: {name} (source lines {l0}-{l1})")
        out.append(sig)
        if spec.strip():
            out.append(spec)
        out.append(body)
        out.append("// <<<")
        gen_end = sum(x.count("\n") + 1 for x in out)
        fns.append({"name": opts.get("as") or name, "src_name": name, "file": rel, "container": container,
                    "src_lines": [l0, l1], "gen_lines": [gen_start, gen_end], "rules": local,
                    "has_body": body != ";"})
    text = "\n".join(out) + "\n"
    labels = {}
    for ln, l in enumerate(text.split("\n"), 1):
        for lm in re.finditer(r"/\*@\s*([^*]+?)\s*\*/", l):
            labels.setdefault(ln, []).extend(lm.group(1).split())
    os.makedirs(os.path.dirname(out_path), exist_ok=True)
    with open(out_path, "w", encoding="utf-8") as f:
        f.write(text)
    meta = {"unit": os.path.basename(template).split(".")[0], "functions": fns, "labels": labels,
            "rule_counts": counts, "path": out_path}
    return meta


if __name__ == "__main__":
    tpl, repo, outp = sys.argv[1:4]
    try:
        meta = build_unit(tpl, repo, outp, vacuity="--vacuity" in sys.argv)
    except (AnchorError, Unsupported) as e:
        print("UNDECIDED:", type(e).__name__, e)
        sys.exit(2)
    print(json.dumps({k: v for k, v in meta.items() if k != "labels"}, indent=1))
