#!/bin/bash
# usage: tools/replay_test.sh <replay test .rs> [repo dir]
# Copies agdb + agdb_derive of the given tree (default /repo working tree) to a scratch workspace,
# drops the replay test into agdb/tests/ and runs it natively.  Exit code = cargo test's.
set -e
T=$(readlink -f "$1"); REPO=${2:-/repo}
S=$(mktemp -d /var/tmp/agdb-replay.XXXXXX)
trap 'rm -rf "$S"' EXIT
rsync -a --exclude target "$REPO/agdb/" "$S/agdb/"
rsync -a --exclude target "$REPO/agdb_derive/" "$S/agdb_derive/"
cp "$REPO/Cargo.lock" "$S/"
printf '[workspace]\nresolver = "2"\nmembers = ["agdb", "agdb_derive"]\n' > "$S/Cargo.toml"
N=$(basename "$T" .rs)
cp "$T" "$S/agdb/tests/$N.rs"
cd "$S"
CARGO_NET_OFFLINE=true CARGO_TARGET_DIR=${VERIF_REPLAY_TARGET:-/var/tmp/agdb-verif-replay-target} \
  timeout ${REPLAY_TIMEOUT:-600} cargo test --offline -p agdb --test "$N" -- --nocapture 2>&1 | tail -40
exit ${PIPESTATUS[0]}
