#!/bin/bash
# dev helper: build the raft harness crate in /var/tmp/kani-raft-dev and run one harness
# usage: tools/kani_raft_dev.sh <harness> [timeout_s] [repo]
S=/var/tmp/kani-raft-dev; rm -rf $S/src; mkdir -p $S
python3 - "$S" "${3:-/repo}" <<'PY'
import sys, os, re, json, shutil
sys.path.insert(0,'/verif/tools')
import kani_run
S, repo = sys.argv[1], sys.argv[2]
gd = kani_run.plan('/verif')['groups']['raft']
kani_run._prepare_raft('/verif', repo, S, gd)
for target, hfile in gd['inject'].items():
    src_rel, dst_rel = target[len('@repo:'):].split('=>')
    txt = open(os.path.join(repo, src_rel.strip())).read()
    for a, b in gd.get('substitute', []):
        txt = re.sub(a, b, txt)
    tp = os.path.join(S, dst_rel.strip())
    os.makedirs(os.path.dirname(tp), exist_ok=True)
    open(tp, 'w').write(txt + '\n' + open('/verif/contracts/kani/' + hfile).read() + '\n')
PY
cd $S && CARGO_NET_OFFLINE=true timeout ${2:-1200} cargo kani -Z function-contracts -Z stubbing --output-format terse --harness $1 2>&1 | grep -vE "^(warning|\s+\||\s+=|\s*$|\s+-->|\s*[0-9]+ \|)" | tail -12
