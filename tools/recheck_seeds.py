#!/usr/bin/env python3
"""usage: tools/recheck_seeds.py [--kani]   re-runs every seeded change recorded as caught (meta.json) against the
checks that caught it and reports the ones that are no longer caught.  Without --kani only Verus-decided ones."""
import json, glob, os, re, subprocess, sys
V = os.path.dirname(os.path.dirname(os.path.abspath(__file__)))
cfg = json.load(open(os.path.join(V, "contracts/properties.json")))
kani = "--kani" in sys.argv
bad = []
for mp in sorted(glob.glob(os.path.join(V, "seeded/*/meta.json"))):
    m = json.load(open(mp))
    if not m.get("caught"):
        continue
    d = os.path.dirname(mp)
    pids = sorted(set(re.findall(r"\b(C\d\d)[:.]", m["caught_by_or_reason_missed"]))) or [m["breaks_property"]]
    pids = [p for p in pids if p in cfg]
    pids = [p for p in pids if kani or cfg[p]["engine"] == "verus" or ("verus" in cfg[p]["engine"] and "Kani" not in m["caught_by_or_reason_missed"] and "c2" not in m["caught_by_or_reason_missed"])]
    if not pids:
        print(m["id"], "skipped (Kani)"); continue
    pid = pids[0]
    env = dict(os.environ)
    if cfg[pid]["engine"] != "verus" and not kani:
        env["VERIF_ONLY"] = "verus"
    out = subprocess.run([os.path.join(V, "tools/run_seed_copy.sh"), d, pid], capture_output=True, text=True, env=env).stdout
    ok = "exit 1" in out
    print(m["id"], pid, "caught" if ok else "NOT CAUGHT: " + out.strip()[:200])
    if not ok:
        bad.append(m["id"])
print("no longer caught:", bad)
