#!/usr/bin/env python3
"""dev helper: build + verify one unit, print failing obligations compactly.  usage: dev_unit.py <unit> [-x <label regex to hide>] [-v]"""
import os, re, sys
sys.path.insert(0, os.path.dirname(os.path.abspath(__file__)))
import verus_run
V = os.path.dirname(os.path.dirname(os.path.abspath(__file__)))
unit = sys.argv[1]
hide = sys.argv[sys.argv.index("-x") + 1] if "-x" in sys.argv else None
r = verus_run.run_unit(V, os.environ.get("VERIF_REPO", "/repo"), unit, "/tmp/vt", rlimit=int(os.environ.get("RLIMIT", "30")))
print("status", r["status"], r["reason"], "verified", r["verified"], "errors", r["n_errors"], "rules", r["rule_counts"], "smt_ms", r["smt_ms"])
seen = {}
for e in r["errors"]:
    key = ",".join(e["labels"]) or e["site"]
    if hide and re.search(hide, key):
        seen[key] = seen.get(key, 0) + 1
        continue
    print("--", key, "|", e["message"])
    if "-v" in sys.argv or not e["labels"]:
        print(e["rendered"])
for k, v in seen.items():
    print("hidden:", k, "x", v)
for fr in r.get("frontend", [])[:5]:
    print(fr["rendered"])
for rr in r.get("resource", []):
    print("RESOURCE", rr["fn"], rr["message"])
