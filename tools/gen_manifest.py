#!/usr/bin/env python3
"""Regenerates /verif/MANIFEST.json from contracts/properties.json + contracts/not_applicable.json."""
import json, os, sys
V = os.path.dirname(os.path.dirname(os.path.abspath(__file__)))
cfg = json.load(open(os.path.join(V, "contracts", "properties.json")))
na = json.load(open(os.path.join(V, "contracts", "not_applicable.json")))
props = [json.loads(l)["id"] for l in open(os.path.join(V, "properties.jsonl"))]
checks = []
for pid in props:
    if pid not in cfg:
        continue
    c = cfg[pid]
    checks.append({
        "property_id": pid,
        "quick_cmd": f"./check {pid} --tier quick",
        "thorough_cmd": f"./check {pid} --tier thorough",
        "evidence_file": f"evidence/{pid}.json",
        "replay_cmd_template": f"./check {pid} --replay {{path}}",
        "engine": c.get("engine", "verus"),
        "level_claimed": {"category": c.get("level", "proof"), "text": c["level_text"], "design_ref": c.get("design_ref", "DESIGN.md §5 " + pid)},
        "level_note": c["level_note"],
        "technique": c.get("technique", "contract-based deductive verification (Verus on mechanically extracted functions)"),
    })
claimed = {c["property_id"] for c in checks}
nal = [{"property_id": p, "reason": na[p]} for p in props if p not in claimed]
missing = [p for p in props if p not in claimed and p not in na]
assert not missing, missing
m = {
    "version": 1,
    "setup_cmd": "./check --selfcheck",
    "hooks": {
        "guard": "none (no hooks in /repo: Verus units are extracted into scratch files and cfg(kani) harnesses are appended to scratch copies only)",
        "enable": "not applicable: checks copy/extract from /repo's working tree on every run",
        "baseline_off_cmd": "cd /repo && (cargo nextest run --workspace --no-fail-fast --test-threads 8 --offline || cargo test --workspace --no-fail-fast --offline)",
        "source_commits": [],
        "add_only": True,
    },
    "engines": [
        {"name": "verus", "path": "tools/verus_run.py + tools/extract.py", "serves_properties": sorted(p for p in claimed if cfg[p].get("verus")),
         "kind_free_text": "Verus 0.2026.09.13 on functions extracted mechanically from /repo on every run (contracts/*.rs.in)"},
        {"name": "kani", "path": "tools/kani_run.py", "serves_properties": sorted(p for p in claimed if cfg[p].get("engine", "").find("kani") >= 0),
         "kind_free_text": "Kani 0.68 / CBMC 6.11 harnesses appended to a scratch copy of the real crates (contracts/kani/*)"},
    ],
    "checks": checks,
    "not_applicable": nal,
    "notes": "Exit 2 from a check means undecided (lost anchor, construct outside the verified subset, resource limit), never a violation. KNOWN_FINDINGS.txt lists genuine defects that were recorded or fixed.",
}
json.dump(m, open(os.path.join(V, "MANIFEST.json"), "w"), indent=1)
print("claimed", sorted(claimed), "n/a", [x["property_id"] for x in nal])
