#!/usr/bin/env python3
"""Regenerates contracts/ASSUMPTIONS.json from the current templates and /repo (run deliberately, after
reviewing new assumptions and listing them in contracts/ASSUMPTIONS.md)."""
import sys, os, json, glob, re
V = os.path.dirname(os.path.dirname(os.path.abspath(__file__)))
sys.path.insert(0, os.path.join(V, "tools"))
import verus_run
from extract import build_unit
allow = {}
for t in sorted(glob.glob(os.path.join(V, "contracts", "*.rs.in"))):
    unit = os.path.basename(t)[:-6]
    out = f"/tmp/vt/{unit}.rs"
    build_unit(t, os.environ.get("VERIF_REPO", "/repo"), out, os.path.join(V, "contracts"))
    allow[unit] = verus_run.scan_assumptions(open(out).read())
kani = {}
for f in sorted(glob.glob(os.path.join(V, "contracts", "kani", "*.rs"))):
    s = open(f).read()
    kani[os.path.basename(f)] = {p: len(re.findall(p, s)) for p in (r"kani::assume", r"kani::stub\b") if re.findall(p, s)}
json.dump({"verus": allow, "kani": kani}, open(os.path.join(V, "contracts", "ASSUMPTIONS.json"), "w"), indent=1, sort_keys=True)
