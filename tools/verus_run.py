"""Build a Verus unit from /repo's working tree, run verus on it, map failures to obligations."""
import json
import os
import re
import subprocess
import time

from extract import build_unit, Unsupported
from rustlex import AnchorError

SEMANTIC = [
    (r"^postcondition not satisfied", "post"),
    (r"^precondition not satisfied", "pre"),
    (r"fails to satisfy `callee\.requires", "pre"),
    (r"^(loop )?invariant not satisfied", "inv"),
    (r"^assertion failed", "assert"),
    (r"^requires not satisfied", "assert"),
    (r"^decreases not satisfied", "decreases"),
    (r"^possible arithmetic (underflow|overflow|underflow/overflow)", "overflow"),
    (r"^possible division by zero", "divzero"),
    (r"^possible bit shift underflow/overflow", "overflow"),
    (r"^recommendation not met", None),
    (r"^unable to prove assertion", "assert"),
    (r"^unable to prove post-condition of closure", "post"),
    (r"^could not prove termination", "decreases"),
    (r"index out of bounds|possible .* out of bounds", "bounds"),
    (r"^possible truncation|^cast .* may (truncate|overflow)", "cast"),
    (r"^possible cast", "cast"),
]
RESOURCE = re.compile(r"[Rr]esource limit|rlimit|timed? ?out|solver .* (crash|unknown)", re.I)


def classify(msg):
    if RESOURCE.search(msg):
        return "resource"
    for rx, cls in SEMANTIC:
        if re.search(rx, msg):
            return cls or "note"
    return "frontend"


def run_unit(verif, repo, unit, workdir, rlimit=30, vacuity=False, threads=4):
    """returns dict(status=ok|fail|undecided, reason, functions, labels, errors, verified, n_errors,
    rule_counts, smt_ms, total_ms, cmd, assumptions)"""
    tpl = os.path.join(verif, "contracts", unit + ".rs.in")
    out = os.path.join(workdir, unit + ("_vacuity" if vacuity else "") + ".rs")
    res = {"unit": unit, "engine": "verus", "errors": [], "functions": [], "verified": 0, "n_errors": 0,
           "labels": [], "rule_counts": {}, "smt_ms": 0, "total_ms": 0, "cmd": "", "status": "undecided",
           "reason": "", "obligations": [], "failed": [], "assumptions": {}}
    try:
        meta = build_unit(tpl, repo, out, os.path.join(verif, "contracts"), vacuity=vacuity)
    except (AnchorError, Unsupported) as e:
        res["reason"] = f"{type(e).__name__}: {e}"
        return res
    res["functions"] = meta["functions"]
    res["rule_counts"] = meta["rule_counts"]
    labels = sorted({l for ls in meta["labels"].values() for l in ls})
    res["labels"] = labels
    text = open(out, encoding="utf-8").read()
    res["assumptions"] = scan_assumptions(text)
    cmd = ["verus", "--edition", "2024", out, "--error-format=json", "--output-json", "--time",
           "--rlimit", str(rlimit), "--multiple-errors", "8", "--num-threads", str(threads)]
    res["cmd"] = " ".join(cmd)
    t0 = time.time()
    try:
        p = subprocess.run(cmd, capture_output=True, text=True, timeout=1800, cwd=workdir)
    except subprocess.TimeoutExpired:
        res["reason"] = "verus timeout"
        return res
    res["wall_s"] = time.time() - t0
    # stdout: output-json; stderr: diagnostics (json lines)
    try:
        j = json.loads(p.stdout[p.stdout.index("{"):])
    except Exception:
        j = {}
    vr = j.get("verification-results", {})
    res["verified"] = vr.get("verified", 0)
    res["n_errors"] = vr.get("errors", 0)
    tm = j.get("times-ms", {})
    res["total_ms"] = tm.get("total", 0)
    res["smt_ms"] = tm.get("smt", {}).get("total", 0)
    per_fn = {}
    for mod in tm.get("smt", {}).get("smt-run-module-times", []):
        for fb in mod.get("function-breakdown", []):
            name = fb["function"]
            d = per_fn.setdefault(name, {"ms": 0, "success": True, "mode": fb.get("mode:", "")})
            d["ms"] += fb.get("time", 0)
            d["success"] = d["success"] and fb.get("success", False)
    res["per_fn"] = per_fn
    lines = text.split("\n")
    line_labels = {int(k): v for k, v in meta["labels"].items()}

    def fn_of(line):
        for f in meta["functions"]:
            if f["gen_lines"][0] <= line <= f["gen_lines"][1]:
                return f
        return None

    def enclosing_name(line):
        # nearest preceding 'fn name' in the generated text (for hand-written lemmas)
        for k in range(min(line, len(lines)) - 1, -1, -1):
            mt = re.search(r"\bfn\s+(\w+)", lines[k])
            if mt:
                return mt.group(1)
        return "?"

    frontend, resource = [], []
    for raw in p.stderr.split("\n"):
        raw = raw.strip()
        if not raw.startswith("{"):
            continue
        try:
            d = json.loads(raw)
        except Exception:
            continue
        if d.get("level") not in ("error",):
            continue
        msg = d.get("message", "")
        if msg.startswith("aborting due to"):
            continue
        cls = classify(msg)
        spans = d.get("spans", [])
        prim = [s for s in spans if s.get("is_primary")] or spans
        pl = prim[0]["line_start"] if prim else 0
        if cls == "frontend":
            frontend.append({"message": msg, "line": pl, "rendered": d.get("rendered", "")})
            continue
        if cls == "resource":
            resource.append({"message": msg, "line": pl, "fn": enclosing_name(pl), "rendered": d.get("rendered", "")})
            continue
        if cls == "note":
            continue
        def labels_of(sp):
            out = []
            for s in sp:
                rng = list(range(s["line_start"], s["line_end"] + 1))
                # a label comment standing alone on the line just above the clause also names it
                prev = s["line_start"] - 1
                if 1 <= prev <= len(lines) and re.fullmatch(r"\s*/\*@[^*]*\*/\s*", lines[prev - 1]):
                    rng.insert(0, prev)
                for ln in rng:
                    for l in line_labels.get(ln, []):
                        if l not in out:
                            out.append(l)
            return out
        # the clause that failed is the primary span, except for a call-site precondition, where the primary span is
        # the call and the failed `requires` clause of the callee is a secondary span.  Other secondary spans ("at
        # the end of the function body", "at this exit") cover whole bodies and would attribute unrelated labels.
        labs = labels_of(prim)
        if not labs and cls in ("pre", "inv", "decreases"):
            # (a loop invariant that fails at a `continue`/`break` has that statement as its primary span)
            labs = labels_of([s for s in spans if s not in prim])
        if not labs and cls == "decreases" and pl:
            # "decreases not satisfied at end of loop": the primary span is the loop keyword; the clause (and its
            # label) is the first `decreases` line of that loop's header
            for ln in range(pl, min(pl + 80, len(lines)) + 1):
                if re.match(r"\s*decreases\b", lines[ln - 1]):
                    labs = labels_of([{"line_start": ln, "line_end": ln}])
                    break
        # the function whose body failed: any span inside an extracted fn, else nearest fn
        f = None
        for s in spans:
            f = f or fn_of(s["line_start"])
        # a postcondition span lies in the spec; the body span identifies the function
        fname = (f["container"].replace("impl ", "") + "::" + f["name"]) if f else enclosing_name(pl)
        ptxt = ""
        if prim:
            t = prim[0].get("text") or []
            if t:
                ptxt = t[0]["text"][t[0]["highlight_start"] - 1:t[0]["highlight_end"] - 1]
        ptxt = re.sub(r"\s+", " ", ptxt)[:80]
        site = f"{unit}:{fname}#{cls}[{ptxt}]"
        res["errors"].append({"labels": labs, "class": cls, "fn": fname, "site": site, "message": msg,
                              "extracted": bool(f), "src": (f["file"] + ":" + str(f["src_lines"][0])) if f else "",
                              "rendered": d.get("rendered", "")})
    # obligations: one per verified-or-failed function (Verus' own count) + one per label
    obl = [f"F:{unit}/{n}" for n in sorted(per_fn)] + [f"L:{l}" for l in labels if not l.startswith("VACUITY.")]
    failed = set()
    for e in res["errors"]:
        for l in e["labels"]:
            failed.add("L:" + l)
    for n, d in per_fn.items():
        if not d["success"]:
            failed.add(f"F:{unit}/{n}")
    res["obligations"] = obl
    res["failed"] = sorted(failed)
    if frontend:
        res["status"] = "undecided"
        res["reason"] = "verus front end: " + frontend[0]["message"] + f" (generated line {frontend[0]['line']})"
        res["frontend"] = frontend
    elif resource and not res["errors"]:
        res["status"] = "undecided"
        res["reason"] = "resource limit: " + "; ".join(r["fn"] for r in resource)
    elif res["errors"]:
        res["status"] = "fail"
    elif p.returncode == 0 and vr.get("success"):
        if res["verified"] == 0:
            res["status"] = "undecided"
            res["reason"] = "zero obligations generated (vacuity guard)"
        else:
            res["status"] = "ok"
    else:
        res["status"] = "undecided"
        res["reason"] = "verus exit %d without diagnostics: %s" % (p.returncode, p.stderr[-400:])
    res["resource"] = resource
    return res


ASSUME_PAT = [r"\bassume\s*\(", r"\badmit\s*\(", r"external_body", r"assume_specification", r"\buninterp\b",
              r"#\[verifier::external", r"\bexternal_fn_specification", r"\baxiom\b"]


def scan_assumptions(text):
    out = {}
    for pat in ASSUME_PAT:
        n = len(re.findall(pat, text))
        if n:
            out[pat.replace("\\b", "").replace("\\s*\\(", "(").replace("\\", "")] = n
    return out
