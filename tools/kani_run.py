"""Kani on a scratch copy of the real crates: harness blocks are appended to the end of the target
source files (most agdb modules are private), /repo itself is never touched."""
import json
import os
import re
import shutil
import subprocess
import time

STUB_BLOCK = r'''
#[cfg(kani)]
#[allow(dead_code)]
pub(crate) mod verif_stubs {
    use core::panic::Location;
    pub fn stub_caller<'a>() -> &'static Location<'a> {
        const L: &Location<'static> = Location::caller();
        L
    }
    pub fn stub_format(_args: core::fmt::Arguments<'_>) -> String {
        String::new()
    }
    // over-approximation of UTF-8 validation for panic-freedom harnesses: validity is
    // non-deterministic (the error value comes from validating one concrete invalid byte)
    // for round trips of strings that are valid UTF-8 by construction (built from `char`s): validation
    // is skipped (T2: std accepts valid UTF-8)
    pub fn stub_from_utf8_valid(v: &[u8]) -> Result<&str, core::str::Utf8Error> {
        Ok(unsafe { core::str::from_utf8_unchecked(v) })
    }
    pub fn stub_from_utf8(v: &[u8]) -> Result<&str, core::str::Utf8Error> {
        if kani::any() {
            Ok(unsafe { core::str::from_utf8_unchecked(v) })
        } else {
            let mut bad = [0xff_u8];
            Err(core::str::from_utf8_mut(&mut bad).unwrap_err())
        }
    }
}
'''


def plan(verif):
    return json.load(open(os.path.join(verif, "contracts", "kani", "plan.json")))


def groups_for(verif, pid, tier):
    p = plan(verif)
    out = []
    for g, gd in p["groups"].items():
        if any(pid in h["props"] and (tier == "thorough" or h.get("tier", "quick") == "quick") for h in gd["harnesses"]):
            out.append(g)
    return out


def _prepare_agdb(repo, scratch):
    os.makedirs(scratch, exist_ok=True)
    for d in ("agdb", "agdb_derive"):
        subprocess.run(["rsync", "-a", "--exclude", "target", "--exclude", "tests", "--exclude", "benches",
                        os.path.join(repo, d) + "/", os.path.join(scratch, d) + "/"], check=True)
    shutil.copy(os.path.join(repo, "Cargo.lock"), os.path.join(scratch, "Cargo.lock"))
    with open(os.path.join(scratch, "Cargo.toml"), "w") as f:
        f.write('[workspace]\nresolver = "2"\nmembers = ["agdb", "agdb_derive"]\n')
    os.makedirs(os.path.join(scratch, ".cargo"), exist_ok=True)
    with open(os.path.join(scratch, ".cargo", "config.toml"), "w") as f:
        f.write("[net]\noffline = true\n")
    # dev-dependencies are not needed (tests are excluded) and would have to resolve offline
    ct = os.path.join(scratch, "agdb", "Cargo.toml")
    t = open(ct).read()
    t = re.sub(r"\[dev-dependencies\][^\[]*", "", t)
    open(ct, "w").write(t)


def _prepare_raft(verif, repo, scratch, gd):
    os.makedirs(os.path.join(scratch, "src"), exist_ok=True)
    tdir = os.path.join(verif, "contracts", "kani", gd["crate_template"])
    for root, _d, files in os.walk(tdir):
        for fn in files:
            rel = os.path.relpath(os.path.join(root, fn), tdir)
            os.makedirs(os.path.dirname(os.path.join(scratch, rel)) or scratch, exist_ok=True)
            shutil.copy(os.path.join(root, fn), os.path.join(scratch, rel))
    os.makedirs(os.path.join(scratch, ".cargo"), exist_ok=True)
    with open(os.path.join(scratch, ".cargo", "config.toml"), "w") as f:
        f.write("[net]\noffline = true\n")


def run_group(verif, repo, group, pid, tier, scratch):
    gd = plan(verif)["groups"][group]
    res = {"group": group, "status": "ok", "reason": "", "harnesses": [], "cmds": [], "assumptions": {}}
    hs = [h for h in gd["harnesses"] if pid in h["props"] and (tier == "thorough" or h.get("tier", "quick") == "quick")]
    if not hs:
        return res
    try:
        if gd.get("kind", "agdb") == "agdb":
            _prepare_agdb(repo, scratch)
            crate_dir = os.path.join(scratch, "agdb")
        else:
            _prepare_raft(verif, repo, scratch, gd)
            crate_dir = scratch
        for target, hfile in gd["inject"].items():
            tp = os.path.join(scratch, target)
            if target.startswith("@repo:"):
                # copy a single file from the repo into the harness crate, with textual substitutions
                src_rel, dst_rel = target[len("@repo:"):].split("=>")
                txt = open(os.path.join(repo, src_rel.strip())).read()
                for a, b in gd.get("substitute", []):
                    n = len(re.findall(a, txt))
                    if n == 0:
                        raise RuntimeError(f"substitution anchor lost: {a}")
                    txt = re.sub(a, b, txt)
                tp = os.path.join(scratch, dst_rel.strip())
                os.makedirs(os.path.dirname(tp), exist_ok=True)
                open(tp, "w").write(txt)
            if not os.path.exists(tp):
                raise RuntimeError(f"target file missing: {target}")
            add = open(os.path.join(verif, "contracts", "kani", hfile)).read()
            with open(tp, "a") as f:
                f.write("\n" + add + "\n")
            for pat in (r"kani::assume", r"kani::stub\b", r"kani::stub_verified"):
                n = len(re.findall(pat, add))
                if n:
                    res["assumptions"][f"{hfile}: {pat}"] = n
        if gd.get("kind", "agdb") == "agdb":
            with open(os.path.join(crate_dir, "src", "lib.rs"), "a") as f:
                f.write(STUB_BLOCK)
    except Exception as e:  # lost anchor etc.
        res["status"] = "undecided"
        res["reason"] = f"harness injection failed: {e}"
        return res
    jobs = int(os.environ.get("VERIF_KANI_JOBS", str(gd.get("jobs", 6))))
    base = ["cargo", "kani", "-Z", "function-contracts", "-Z", "stubbing", "-Z", "concrete-playback",
            "--concrete-playback=print", "--output-format", "terse"] + gd.get("extra_args", [])
    env = dict(os.environ, CARGO_NET_OFFLINE="true", CARGO_TARGET_DIR=os.path.join(scratch, "target"))
    res["cmds"].append(" ".join(base) + " --harness <each of: " + ",".join(h["name"] for h in hs) +
                       f">   (cwd: scratch copy of {gd.get('kind', 'agdb')} with harnesses appended)")
    t0 = time.time()
    timeout = int(gd.get("timeout_s", 900)) * (3 if tier == "thorough" else 1)
    # 1. compile once (all harnesses), so that the per-harness processes below only run CBMC
    try:
        pc = subprocess.run(base + ["--only-codegen"], cwd=crate_dir, env=env, capture_output=True, text=True, timeout=1800)
    except subprocess.TimeoutExpired:
        res["status"] = "undecided"
        res["reason"] = "kani compile timeout"
        return res
    cout = pc.stdout + "\n" + pc.stderr
    with open(os.path.join(scratch, "kani-compile.log"), "w") as f:
        f.write(cout)
    if pc.returncode != 0:
        res["status"] = "undecided"
        mt = re.search(r"error(\[E\d+\])?:[^\n]*(\n[^\n]*){0,6}", cout)
        res["reason"] = "harness crate does not compile on this tree: " + (mt.group(0) if mt else cout[-500:])
        return res

    def one(h):
        th = int(h.get("timeout_s", timeout))
        # own process group, so that a timeout kills cargo-kani, kani-driver, goto-* and cbmc together
        pr = subprocess.Popen(base + ["--harness", h["name"]], cwd=crate_dir, env=env, stdout=subprocess.PIPE,
                              stderr=subprocess.STDOUT, text=True, start_new_session=True)
        try:
            out, _ = pr.communicate(timeout=th)
        except subprocess.TimeoutExpired:
            import signal
            try:
                os.killpg(pr.pid, signal.SIGKILL)
            except ProcessLookupError:
                pass
            pr.wait()
            return h, None, f"timeout after {th}s"
        with open(os.path.join(scratch, f"kani-{h['name']}.log"), "w") as f:
            f.write(out)
        return h, parse_kani(out).get(h["name"]), out[-600:]

    import concurrent.futures as cf
    # groups with a "lock" name are serialised across check processes (two raft runs side by side need more
    # memory than the machine has: CBMC was killed and the harness came out UNDETERMINED); the lock file is
    # created on demand next to the scratch directories
    lock_f = None
    if gd.get("lock"):
        import fcntl
        lock_f = open(os.path.join(os.environ.get("VERIF_SCRATCH", "/var/tmp"), f"agdb-verif-{gd['lock']}.lock"), "w")
        fcntl.flock(lock_f, fcntl.LOCK_EX)
    # harnesses marked "exclusive" need most of the machine's memory (CBMC > 20 GB): they run one at a time,
    # after the others (run in parallel they were killed for lack of memory and came out UNDETERMINED)
    par = [h for h in hs if not h.get("exclusive")]
    seq = [h for h in hs if h.get("exclusive")]
    with cf.ThreadPoolExecutor(max_workers=jobs) as ex:
        outs = list(ex.map(one, par))
    for h in seq:
        outs.append(one(h))
    if lock_f:
        lock_f.close()
    res["wall_s"] = time.time() - t0
    for h, pr, tail in outs:
        row = {"name": h["name"], "label": h["label"], "kind": h.get("kind", "proof"), "result": "MISSING"}
        if pr:
            row.update(pr)
        else:
            row["result"] = "UNDETERMINED"
            row["log_tail"] = tail
        if row["result"] == "FAILED":
            # only assertion/panic/overflow failures are semantic; unwinding / unsupported are tool limits
            fc = row.get("failed_checks", [])
            if not fc:
                # CBMC crashed / was killed / ran out of memory: no failed property was reported
                row["result"] = "UNDETERMINED"
            elif all(re.search(r"unwinding assertion|unsupported|not currently supported|recursion", c) for c in fc):
                row["result"] = "UNDETERMINED"
            elif row.get("playback"):
                row["playback_result"] = run_playback(crate_dir, env, h, row["playback"], gd)
                # a counterexample that does not fail when replayed on the native code is spurious
                # (tool imprecision): undecided, never an alarm
                if re.search(r"test result: ok\. 1 passed", row["playback_result"] or ""):
                    row["result"] = "UNDETERMINED"
                    row["log_tail"] = "kani counterexample did not reproduce natively (spurious)\n" + (row.get("log_tail") or "")
        res["harnesses"].append(row)
    return res


def parse_kani(out):
    """split the combined log per harness"""
    res = {}
    # with -j the per-harness logs are printed as blocks starting 'Thread N: Checking harness X...' or 'Checking harness X...'
    blocks = re.split(r"(?m)^(?:Thread \d+: )?Checking harness ([\w:]+)\.\.\.", out)
    # blocks: [pre, name1, body1, name2, body2...]
    for k in range(1, len(blocks), 2):
        name = blocks[k].split("::")[-1]
        body = blocks[k + 1]
        r = {}
        mt = re.search(r"VERIFICATION:- (\w+)", body)
        r["result"] = mt.group(1) if mt else "UNKNOWN"
        mt = re.search(r"Verification Time: ([\d.]+)s", body)
        r["time_s"] = float(mt.group(1)) if mt else None
        mt = re.search(r"\*\* (\d+) of (\d+) failed", body)
        if mt:
            r["checks"] = {"failed": int(mt.group(1)), "total": int(mt.group(2))}
        fc = re.findall(r"Failed Checks: ([^\n]*)(?:\n File: ([^\n]*))?", body)
        r["failed_checks"] = [a + ((" @ " + b.strip()) if b else "") for a, b in fc]
        pm = re.search(r"```\s*\n(/// Test generated for harness.*?)```", body, re.S)
        if not pm:
            pm = re.search(r"(#\[test\]\s*\nfn kani_concrete_playback_\w+\(\)\s*\{.*?\n\})", body, re.S)
        if pm:
            r["playback"] = pm.group(1)
        r["log_tail"] = body[-3000:]
        res[name] = r
    return res


def run_playback(crate_dir, env, h, test_src, gd):
    """append the generated unit test next to the harness and run it natively (unstubbed code)"""
    try:
        target = None
        for t in gd["inject"]:
            target = t
        if target.startswith("@repo:"):
            target = target.split("=>")[1].strip()
            tp = os.path.join(crate_dir, target)
        else:
            tp = os.path.join(os.path.dirname(crate_dir), target) if gd.get("kind", "agdb") == "agdb" else os.path.join(crate_dir, target)
        src = open(tp).read()
        # put the test inside the harness module: before its final closing brace
        idx = src.rstrip().rfind("}")
        mt = re.search(r"fn (kani_concrete_playback_\w+)", test_src)
        if not mt:
            return "no playback test name"
        open(tp, "w").write(src[:idx] + "\n" + test_src + "\n}\n")
        cmd = ["cargo", "kani", "playback", "-Z", "concrete-playback", "--lib", "--", mt.group(1)]
        p = subprocess.run(cmd, cwd=crate_dir, env=env, capture_output=True, text=True, timeout=900)
        open(tp, "w").write(src)
        tail = (p.stdout + p.stderr)[-2500:]
        return "$ " + " ".join(cmd) + "\n" + tail
    except Exception as e:  # noqa
        return f"playback failed to run: {e}"
