#!/bin/bash
# dev helper: (re)create /var/tmp/kani-dev with all harness files injected, then run one harness
# usage: tools/kani_dev.sh setup | tools/kani_dev.sh run <harness> [timeout_s]
S=/var/tmp/kani-dev
if [ "$1" = setup ]; then
  rm -rf $S/agdb $S/agdb_derive; mkdir -p $S
  python3 - <<PY
import sys, json, os
sys.path.insert(0,'/verif/tools')
import kani_run
kani_run._prepare_agdb('/repo','$S')
plan=kani_run.plan('/verif')
done=set()
for g,gd in plan['groups'].items():
    if gd.get('kind','agdb')!='agdb': continue
    for t,h in gd['inject'].items():
        if (t,h) in done: continue
        done.add((t,h))
        open(os.path.join('$S',t),'a').write('\n'+open('/verif/contracts/kani/'+h).read()+'\n')
open('$S/agdb/src/lib.rs','a').write(kani_run.STUB_BLOCK)
PY
  exit 0
fi
cd $S/agdb && CARGO_NET_OFFLINE=true CARGO_TARGET_DIR=$S/target timeout ${3:-600} cargo kani -Z function-contracts -Z stubbing --output-format terse --harness $2 2>&1 | grep -vE "^(warning|\s+\||\s+=|\s*$|\s+-->|\s*[0-9]+ \|)" | tail -${LINES_OUT:-25}
