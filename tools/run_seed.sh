#!/bin/bash
# usage: tools/run_seed.sh <seed dir with patch.diff> <property id>...   -> applies the patch to /repo, runs the quick checks, reverts
D=$(readlink -f "$1"); shift
cd /repo || exit 9
if [ -n "$(git status --porcelain --untracked-files=no)" ]; then echo "repo not clean"; exit 9; fi
git apply "$D/patch.diff" || { echo "patch does not apply"; exit 9; }
cd /verif
for id in "$@"; do
  ./check "$id" --tier ${TIER:-quick} > "$D/check_$id.out" 2>&1; rc=$?
  echo "seed $(basename $(dirname $D))/$(basename $D) check $id: exit $rc  $(grep -c '^VIOLATION' $D/check_$id.out) violation line(s)  $(grep -m1 '^# failed' $D/check_$id.out)"
done
git -C /repo checkout -- . 
