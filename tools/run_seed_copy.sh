#!/bin/bash
# usage: tools/run_seed_copy.sh <seed dir with patch.diff> <property id>...
# like run_seed.sh, but applies the patch to a scratch COPY of /repo (VERIF_REPO) so /repo stays untouched
D=$(readlink -f "$1"); shift
N=$(basename "$D")
R=/var/tmp/seedrepo-$N; rm -rf "$R"; mkdir -p "$R"
rsync -a --exclude target /repo/ "$R/"
git -C "$R" checkout -q -- . 2>/dev/null
git -C "$R" apply "$D/patch.diff" || { echo "patch does not apply"; rm -rf "$R"; exit 9; }
cd /verif
for id in "$@"; do
  VERIF_EVIDENCE_DIR="$D/evidence" VERIF_REPO="$R" ./check "$id" --tier ${TIER:-quick} > "$D/check_$id.out" 2>&1; rc=$?
  echo "seed $N check $id: exit $rc  $(grep -c '^VIOLATION' $D/check_$id.out) violation line(s)  $(grep -m1 '^# failed' $D/check_$id.out)"
done
rm -rf "$R"
