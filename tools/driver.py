"""Check driver: decides one property from its Verus units and Kani harness groups."""
import concurrent.futures as cf
import json
import os
import re
import shutil
import subprocess
import sys
import tempfile
import time

import verus_run
import kani_run

REPO = os.environ.get("VERIF_REPO", "/repo")
try:
    ALLOW = json.load(open(os.path.join(os.path.dirname(os.path.dirname(os.path.abspath(__file__))), "contracts", "ASSUMPTIONS.json")))
except Exception:
    ALLOW = {}


def load_cfg(verif):
    return json.load(open(os.path.join(verif, "contracts", "properties.json")))


def load_known(verif):
    known, fixed = [], []
    p = os.path.join(verif, "KNOWN_FINDINGS.txt")
    if os.path.exists(p):
        for line in open(p):
            line = line.strip()
            mt = re.match(r"known:\s*property=(\S+)\s+obligation=(\S+)\s*(.*)$", line)
            if mt:
                known.append({"property": mt.group(1), "obligation": mt.group(2), "text": mt.group(3)})
            elif line.startswith("fixed:"):
                fixed.append(line)
    return known, fixed


def unit_entries(cfg_p, tier):
    ents = list(cfg_p.get("verus", []))
    if tier == "thorough":
        ents += cfg_p.get("verus_thorough", [])
    out = []
    for e in ents:
        if isinstance(e, str):
            e = {"unit": e}
        out.append(e)
    return out


def counts_for(pid, entry, err, tier):
    """does this failing obligation count against property pid?"""
    own = [l for l in err["labels"] if l.startswith(pid + ".")]
    if own:
        return True
    if err["labels"]:
        # a clause that belongs to other properties only: the property depends on it as an assumed
        # contract; counted in the thorough tier, or when the entry says so
        return tier == "thorough" or entry.get("all_labels", False)
    if entry.get("labels_only"):
        return False
    fns = entry.get("fns")
    if fns:
        return any(re.fullmatch(f.replace("*", ".*"), err["fn"]) for f in fns)
    return True


def main(verif, argv):
    if "--selfcheck" in argv:
        return selfcheck(verif)
    if not argv or argv[0].startswith("-"):
        print(__doc__)
        return 2
    pid = argv[0]
    tier = os.environ.get("VERIF_TIER", "quick")
    if "--tier" in argv:
        tier = argv[argv.index("--tier") + 1]
    if tier not in ("quick", "thorough"):
        tier = "quick"
    if "--replay" in argv:
        path = argv[argv.index("--replay") + 1]
        return replay(verif, pid, path)
    cfg = load_cfg(verif)
    if pid == "all":
        rc = 0
        ids = [k for k in sorted(cfg) if not k.startswith("_")]
        with cf.ThreadPoolExecutor(max_workers=int(os.environ.get("VERIF_JOBS", "4"))) as ex:
            futs = {i: ex.submit(subprocess.run, [os.path.join(verif, "check"), i, "--tier", tier],
                                 capture_output=True, text=True) for i in ids}
            for i in ids:
                r = futs[i].result()
                tail = [l for l in r.stdout.split("\n") if l.strip()][-1:] or [""]
                print(f"{i}: exit {r.returncode}  {tail[0]}")
                for l in r.stdout.split("\n"):
                    if l.startswith("VIOLATION") or l.startswith("KNOWN-FINDING") or l.startswith("UNDECIDED"):
                        print("   ", l)
                rc = max(rc, r.returncode)
        return rc
    if pid not in cfg:
        print(f"property {pid} is not claimed (see MANIFEST.json not_applicable)")
        return 2
    return check_property(verif, pid, tier, cfg[pid], keep="--keep" in argv)


def check_property(verif, pid, tier, cp, keep=False):
    t0 = time.time()
    seed = int(os.environ.get("VERIF_SEED", "0") or 0)
    known, _fixed = load_known(verif)
    scratch = tempfile.mkdtemp(prefix=f"agdb-verif-{pid}-", dir=os.environ.get("VERIF_SCRATCH", "/var/tmp"))
    results, undecided = [], []
    try:
        ents = unit_entries(cp, tier)
        kgroups = kani_run.groups_for(verif, pid, tier)
        only = os.environ.get("VERIF_ONLY", "")  # development aid: "verus" or "kani"
        if only == "verus":
            kgroups = []
        elif only == "kani":
            ents = []
        with cf.ThreadPoolExecutor(max_workers=8) as ex:
            vf = [(e, ex.submit(verus_run.run_unit, verif, REPO, e["unit"], os.path.join(scratch, "verus"),
                                 60 if tier == "thorough" else 30)) for e in ents]
            vac = []
            if tier == "thorough":
                vac = [(e, ex.submit(verus_run.run_unit, verif, REPO, e["unit"], os.path.join(scratch, "verus"),
                                     10, True)) for e in ents]
            kf = [(g, ex.submit(kani_run.run_group, verif, REPO, g, pid, tier, os.path.join(scratch, "kani-" + g)))
                  for g in kgroups]
            vres = [(e, f.result()) for e, f in vf]
            vacres = [(e, f.result()) for e, f in vac]
            kres = [(g, f.result()) for g, f in kf]
        violations, known_hits = [], []
        obligations, failed_obl = [], set()
        fn_rows, assumptions, rule_counts, cmds = [], {}, {}, []
        smt_ms = 0
        for e, r in vres:
            cmds.append(r["cmd"])
            smt_ms += r.get("smt_ms", 0)
            for k, v in r["rule_counts"].items():
                rule_counts[k] = rule_counts.get(k, 0) + v
            for k, v in r["assumptions"].items():
                assumptions[f"{r['unit']}: {k}"] = v
                # assumption scan: a unit may not contain more assume/admit/external_body/... constructs than
                # the committed allow-list (contracts/ASSUMPTIONS.json, explained in ASSUMPTIONS.md) says
                allowed = ALLOW.get("verus", {}).get(r["unit"], {}).get(k, 0)
                if v > allowed:
                    undecided.append(f"assumption scan: unit {r['unit']} has {v} x `{k}` but the allow-list permits {allowed}")
            if r["status"] == "undecided":
                undecided.append(f"verus unit {r['unit']}: {r['reason']}")
                continue
            labs_only = e.get("labels_only")
            for o in r["obligations"]:
                if o.startswith("L:"):
                    l = o[2:]
                    if l.startswith(pid + ".") or tier == "thorough" or e.get("all_labels"):
                        obligations.append(o)
                elif not labs_only:
                    obligations.append(o)
            for f in r["functions"]:
                fn_rows.append({"fn": f["container"] + " :: " + f["name"], "file": f["file"],
                                "src_lines": f["src_lines"], "backend": "verus/z3", "unit": r["unit"],
                                "rules": f["rules"]})
            for err in r["errors"]:
                if not counts_for(pid, e, err, tier):
                    continue
                ids = ["L:" + l for l in err["labels"]] or [err["site"]]
                for i in ids:
                    failed_obl.add(i)
                # known finding?
                hit = None
                for k in known:
                    # a known finding is identified by its obligation label / site; it is the same
                    # defect whichever property's check runs into it
                    if k["obligation"] in err["labels"] or k["obligation"] == err["site"]:
                        hit = k
                if hit:
                    known_hits.append((hit, err))
                else:
                    violations.append(("verus", r["unit"], err))
            if not labs_only:
                # a function-level obligation fails for this property iff one of the errors that
                # count against the property lies in that function
                def _known(er):
                    return any(k["obligation"] in er["labels"] or k["obligation"] == er["site"] for k in known)
                bad = {er["fn"].split("::")[-1] for er in r["errors"] if counts_for(pid, e, er, tier) and not _known(er)}
                for fo in r["obligations"]:
                    if fo.startswith("F:") and fo.split("::")[-1] in bad:
                        failed_obl.add(fo)
            for rr in r.get("resource", []):
                if r["status"] == "fail":
                    undecided.append(f"verus unit {r['unit']}: resource limit in {rr['fn']}")
        # vacuity probes (thorough): every extracted function must FAIL `assert(false)` at entry
        vac_note = []
        for e, r in vacres:
            if r["status"] == "undecided" and not r.get("errors"):
                undecided.append(f"vacuity probe {r['unit']}: {r['reason']}")
                continue
            reached = {l for er in r["errors"] for l in er["labels"] if l.startswith("VACUITY.")}
            want = {"VACUITY." + f["name"] for f in r["functions"] if f["has_body"]}
            missing = sorted(want - reached)
            vac_note.append({"unit": r["unit"], "probed": len(want), "reachable": len(want & reached)})
            if missing:
                undecided.append(f"vacuity: precondition of {missing} in unit {r['unit']} is contradictory or unreachable")
        kani_rows = []
        bounds = []
        for g, r in kres:
            cmds.extend(r.get("cmds", []))
            if r["status"] == "undecided":
                undecided.append(f"kani group {g}: {r['reason']}")
            for h in r.get("harnesses", []):
                obligations.append("K:" + h["label"])
                kani_rows.append({"harness": h["name"], "label": h["label"], "kind": h["kind"],
                                  "result": h["result"], "time_s": h.get("time_s"), "backend": "kani/cbmc",
                                  "checks": h.get("checks")})
                if h["kind"].startswith("bounded"):
                    bounds.append(f"{h['label']}: {h['kind']}")
                if h["result"] == "FAILED":
                    failed_obl.add("K:" + h["label"])
                    hit = None
                    for k in known:
                        if k["obligation"] == h["label"]:
                            hit = k
                    err = {"labels": [h["label"]], "class": "kani", "fn": h["name"], "site": h["label"],
                           "message": "; ".join(h.get("failed_checks", [])[:4]),
                           "rendered": h.get("log_tail", ""), "playback": h.get("playback"),
                           "playback_result": h.get("playback_result")}
                    if hit:
                        known_hits.append((hit, err))
                    else:
                        violations.append(("kani", g, err))
                elif h["result"] not in ("SUCCESSFUL",):
                    undecided.append(f"kani harness {h['name']}: {h['result']}")
            for k, v in r.get("assumptions", {}).items():
                assumptions[f"kani/{g}: {k}"] = v
        # obligations that fail because of a recorded genuine defect are reported as KNOWN-FINDING
        # and are not counted as obligations of this run (neither discharged nor failed)
        known_obl = set()
        for hit, err in known_hits:
            for l in err["labels"]:
                known_obl.add("L:" + l)
                known_obl.add("K:" + l)
            known_obl.add(err["site"])
        viol_obl = set()
        for _eng, _unit, err in violations:
            for l in err["labels"]:
                viol_obl.add("L:" + l)
                viol_obl.add("K:" + l)
        known_obl -= viol_obl
        obligations = sorted(o for o in set(obligations) if o not in known_obl)
        failed_obl = {o for o in failed_obl if o not in known_obl}
        discharged = [o for o in obligations if o not in failed_obl]
        # ------------------------------------------------------------------ report
        seen = set()
        for hit, err in known_hits:
            key = (hit["obligation"])
            if key in seen:
                continue
            seen.add(key)
            print(f"KNOWN-FINDING: property={pid} obligation={hit['obligation']} {hit['text']}")
        replay_paths = []
        os.makedirs(os.path.join(verif, "replays", "out"), exist_ok=True)
        for n, (eng, unit, err) in enumerate(violations):
            rp = os.path.join(verif, "replays", "out", f"{pid}-{eng}-{unit}-{n}.txt")
            with open(rp, "w") as f:
                f.write(f"property: {pid}\nengine: {eng}\nunit/group: {unit}\n")
                f.write(f"failed obligation: {', '.join(err['labels']) or err['site']}\n")
                f.write(f"function: {err['fn']}   {err.get('src', '')}\nclass: {err['class']}\nmessage: {err['message']}\n")
                if eng == "verus" or not err.get("playback"):
                    f.write("counterexample: no-failing-input-found (the verifier returns no model; the obligation "
                            "was discharged on the unchanged tree and is refuted or no longer provable on this tree)\n")
                else:
                    f.write("counterexample (kani concrete playback, replayed on the native code):\n")
                    f.write(err["playback"] + "\n--- playback run ---\n" + (err.get("playback_result") or "") + "\n")
                f.write("\n--- verifier output ---\n" + err.get("rendered", "") + "\n")
                f.write(f"\nre-run: cd /verif && ./check {pid} --tier {tier}\n")
            replay_paths.append((rp, eng, err))
        status = "ok"
        if violations:
            status = "violation"
        elif undecided:
            status = "undecided"
        # evidence
        level = cp.get("level", "proof")
        samples = []
        for o in obligations[:6]:
            samples.append(o)
        ev = {
            "property_id": pid, "tier": tier, "seed": seed, "level": level,
            "coverage": {
                "obligations": len(obligations), "discharged": len(discharged),
                "checker_cmd": " ; ".join(cmds) if cmds else "none",
                "trusted_base": cp.get("trusted_base", []),
                "explanation": cp.get("explanation", ""),
                "samples": samples,
                "obligation_ids": obligations,
                "failed_obligations": sorted(failed_obl),
                "functions_under_contract": fn_rows,
                "kani_harnesses": kani_rows,
                "bounds": bounds or cp.get("bounds", []),
                "extraction_rule_hits": rule_counts,
                "solver_ms": {"verus_smt_ms": smt_ms,
                              "verus_per_function": {r["unit"]: {k: v["ms"] for k, v in r.get("per_fn", {}).items()} for _, r in vres},
                              "kani_s": {h["harness"]: h["time_s"] for h in kani_rows}},
                "vacuity_probes": vac_note,
                "undecided": undecided,
                "known_findings_hit": [h["obligation"] for h, _ in known_hits],
                "status": status,
                "evaluations": max(1, len(obligations)), "distinct_nontrivial": max(2, len(obligations)),
                "rule": "one case per proof obligation (verified function or named contract clause or Kani harness)",
            },
            "assumptions": cp.get("assumptions", []) + [f"{k} x{v}" for k, v in sorted(assumptions.items())],
            "wall_s": round(time.time() - t0, 2),
            "violations": len(violations),
        }
        # (runs against a scratch copy of the repository - seeded changes - keep their evidence out of /verif/evidence)
        evdir = os.environ.get("VERIF_EVIDENCE_DIR") or os.path.join(verif, "evidence")
        os.makedirs(evdir, exist_ok=True)
        with open(os.path.join(evdir, pid + ".json"), "w") as f:
            json.dump(ev, f, indent=1)
        for u in undecided:
            print(f"UNDECIDED: property={pid} {u}")
        for rp, eng, err in replay_paths:
            tail = "" if (eng == "kani" and err.get("playback")) else " no-failing-input-found"
            print(f"# failed obligation {', '.join(err['labels']) or err['site']} in {err['fn']}: {err['message']}")
            print(f"VIOLATION property={pid} replay={rp}{tail}")
        print(f"{pid} [{tier}] {status}: {len(discharged)}/{len(obligations)} obligations discharged, "
              f"{len(fn_rows)} functions under contract, {len(kani_rows)} kani harnesses, {ev['wall_s']} s")
        if violations:
            return 1
        if undecided:
            return 2
        return 0
    finally:
        if not keep:
            shutil.rmtree(scratch, ignore_errors=True)
        else:
            print("scratch kept:", scratch)


def replay(verif, pid, path):
    if not os.path.exists(path):
        print("no such replay file", path)
        return 2
    print(open(path).read())
    return 1


def selfcheck(verif):
    ok = True
    for tool, args in (("verus", ["--version"]), ("cargo", ["kani", "--version"]), ("python3", ["--version"])):
        try:
            p = subprocess.run([tool] + args, capture_output=True, text=True, timeout=120)
            print(tool, (p.stdout or p.stderr).strip().split("\n")[0])
            ok = ok and p.returncode == 0
        except Exception as e:  # noqa
            print(tool, "missing:", e)
            ok = False
    cfg = load_cfg(verif)
    for pid, cp in cfg.items():
        if pid.startswith("_"):
            continue
        for e in unit_entries(cp, "thorough"):
            t = os.path.join(verif, "contracts", e["unit"] + ".rs.in")
            if not os.path.exists(t):
                print("missing template", t)
                ok = False
    return 0 if ok else 1
