// ---- abstract Storage<D> as seen from the collections: a partial map record index -> value bytes ----
// This is the value-level contract of the storage layer (C04).  It is ASSUMED here: the allocator unit
// that would prove it for storage.rs was not built (listed in ASSUMPTIONS.md).
pub struct DbError { pub code: u8 }
pub enum DbErrorType { DbCreate, InvalidIndex, NotAllowed, NotEnoughData, NotFound, OutOfBounds, TypeError }
impl DbError {
    #[verifier::external_body]
    pub fn collections(ty: DbErrorType, description: String) -> DbError { unimplemented!() }
}
#[verifier::external_body]
pub fn err_msg() -> String { unimplemented!() }

pub trait StorageData: Sized {}

#[derive(Clone, Copy, PartialEq, Eq)]
pub struct StorageIndex(pub u64);

pub open spec fn zeros(n: int) -> Seq<u8> { Seq::new(n as nat, |i: int| 0u8) }

// write `w` at offset `off` of value `v`, zero-extending the value when the write ends beyond it
pub open spec fn write_grow(v: Seq<u8>, off: int, w: Seq<u8>) -> Seq<u8> {
    let v2 = if off + w.len() > v.len() { v + zeros(off + w.len() - v.len()) } else { v };
    v2.subrange(0, off) + w + v2.subrange(off + w.len(), v2.len() as int)
}
pub open spec fn resize_spec(v: Seq<u8>, n: int) -> Seq<u8> {
    if n <= v.len() { v.subrange(0, n) } else { v + zeros(n - v.len()) }
}
// move_at: copy `size` bytes from `from` to `to` (growing), then zero the part of the source range
// that the destination does not overlap
pub open spec fn move_spec(v: Seq<u8>, from: int, to: int, size: int) -> Seq<u8> {
    let moved = write_grow(v, to, v.subrange(from, from + size));
    if from < to {
        let n = if size <= to - from { size } else { to - from };
        write_grow(moved, from, zeros(n))
    } else if from > to {
        let p = if to + size >= from { to + size } else { from };
        write_grow(moved, p, zeros(from + size - p))
    } else {
        moved
    }
}

// binary serialization as a spec function (C20 decides the real (de)serializers with Kani)
pub trait Serialize: Sized {
    spec fn ser(&self) -> Seq<u8>;
    fn serialized_size(&self) -> (r: u64)
        ensures r == self.ser().len();
}
pub uninterp spec fn le64(x: u64) -> Seq<u8>;
impl Serialize for u64 {
    open spec fn ser(&self) -> Seq<u8> { le64(*self) }
    #[verifier::external_body]
    fn serialized_size(&self) -> (r: u64) { unimplemented!() }
}
pub trait SerializeStatic: Serialize {
    fn serialized_size_static() -> u64;
}
impl SerializeStatic for u64 {
    #[verifier::external_body]
    fn serialized_size_static() -> (r: u64) ensures r == 8 { unimplemented!() }
}
// u64 serializes to exactly 8 bytes, injectively (Kani: c20_u64_roundtrip)
pub broadcast proof fn axiom_le64(x: u64, y: u64)
    ensures #[trigger] le64(x).len() == 8, #[trigger] le64(y).len() == 8, le64(x) == le64(y) ==> x == y
{ admit(); }

pub type StorageSlice<'a> = Cow<'a, [u8]>;
pub uninterp spec fn cow_ref<'a, B: ?Sized + ToOwned>(c: Cow<'a, B>) -> &'a B;
pub assume_specification<'a, 'b, B: ?Sized + ToOwned> [<Cow<'a, B> as core::ops::Deref>::deref] (c: &'b Cow<'a, B>) -> (s: &'b B)
    ensures s == cow_ref(*c);
pub open spec fn cow_view<T: Clone>(c: Cow<'_, [T]>) -> Seq<T> { cow_ref(c)@ }
pub assume_specification<T: Clone> [<[T]>::to_vec] (s: &[T]) -> (v: Vec<T>)
    ensures v@ == s@;

#[verifier::external_body]
#[verifier::reject_recursive_types(D)]
pub struct Storage<D: StorageData> { d: D }

impl<D: StorageData> Storage<D> {
    pub uninterp spec fn depth(&self) -> nat;
    pub uninterp spec fn values(&self) -> Map<u64, Seq<u8>>;

    #[verifier::external_body]
    pub fn transaction(&mut self) -> (r: u64)
        ensures final(self).depth() == old(self).depth() + 1, r == final(self).depth(), final(self).values() == old(self).values(),
    { unimplemented!() }
    #[verifier::external_body]
    pub fn commit(&mut self, id: u64) -> (r: Result<(), DbError>)
        ensures final(self).values() == old(self).values(),
            (id == old(self).depth() && id > 0) ==> final(self).depth() == old(self).depth() - 1,
    { unimplemented!() }

    #[verifier::external_body]
    pub fn value_as_bytes_at_size(&'_ self, index: StorageIndex, offset: u64, size: u64) -> (r: Result<StorageSlice<'_>, DbError>)
        ensures r is Ok ==> self.values().contains_key(index.0) && offset + size <= self.values()[index.0].len()
            && cow_view(r->Ok_0) == self.values()[index.0].subrange(offset as int, offset + size),
    { unimplemented!() }

    #[verifier::external_body]
    pub fn value_size(&self, index: StorageIndex) -> (r: Result<u64, DbError>)
        ensures r is Ok ==> self.values().contains_key(index.0) && r->Ok_0 == self.values()[index.0].len(),
    { unimplemented!() }

    #[verifier::external_body]
    pub fn value<T: Serialize>(&self, index: StorageIndex) -> (r: Result<T, DbError>)
        ensures r is Ok ==> self.values().contains_key(index.0) && self.values()[index.0].len() >= r->Ok_0.ser().len()
            && r->Ok_0.ser() == self.values()[index.0].subrange(0, r->Ok_0.ser().len() as int),
    { unimplemented!() }

    #[verifier::external_body]
    pub fn insert_bytes_at(&mut self, index: StorageIndex, offset: u64, bytes: &[u8]) -> (r: Result<(), DbError>)
        ensures r is Ok ==> old(self).values().contains_key(index.0)
            && final(self).values() == old(self).values().insert(index.0, write_grow(old(self).values()[index.0], offset as int, bytes@))
            && final(self).depth() == old(self).depth(),
    { unimplemented!() }

    #[verifier::external_body]
    pub fn insert_at<T: Serialize>(&mut self, index: StorageIndex, offset: u64, value: &T) -> (r: Result<(), DbError>)
        ensures r is Ok ==> old(self).values().contains_key(index.0)
            && final(self).values() == old(self).values().insert(index.0, write_grow(old(self).values()[index.0], offset as int, value.ser()))
            && final(self).depth() == old(self).depth(),
    { unimplemented!() }

    #[verifier::external_body]
    pub fn move_at(&mut self, index: StorageIndex, offset_from: u64, offset_to: u64, size: u64) -> (r: Result<(), DbError>)
        ensures r is Ok ==> old(self).values().contains_key(index.0)
            && offset_from + size <= old(self).values()[index.0].len()
            && final(self).values() == old(self).values().insert(index.0, move_spec(old(self).values()[index.0], offset_from as int, offset_to as int, size as int))
            && final(self).depth() == old(self).depth(),
    { unimplemented!() }

    #[verifier::external_body]
    pub fn resize_value(&mut self, index: StorageIndex, new_size: u64) -> (r: Result<(), DbError>)
        ensures r is Ok ==> old(self).values().contains_key(index.0)
            && final(self).values() == old(self).values().insert(index.0, resize_spec(old(self).values()[index.0], new_size as int))
            && final(self).depth() == old(self).depth(),
    { unimplemented!() }
}
