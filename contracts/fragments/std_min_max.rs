// T2: std::cmp::min / max (std, unverified) — specified through vstd's OrdSpec
pub assume_specification<T: Ord> [std::cmp::min::<T>] (a: T, b: T) -> (r: T)
    where T: std::marker::Destruct
    ensures T::obeys_cmp_spec() ==> r == (if a.cmp_spec(&b) == core::cmp::Ordering::Greater { b } else { a });
pub assume_specification<T: Ord> [std::cmp::max::<T>] (a: T, b: T) -> (r: T)
    where T: std::marker::Destruct
    ensures T::obeys_cmp_spec() ==> r == (if a.cmp_spec(&b) == core::cmp::Ordering::Greater { a } else { b });
