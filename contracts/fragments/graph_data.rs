// ---- shared by units graph and graph_remove: GraphIndex, the abstract slot arrays (GraphData contract),
// slot classification and the free-slot stack invariant with its lemmas ------------------------------
//@ include fragments/storage_abs.rs
impl DbError {
    #[verifier::external_body]
    pub fn graph(ty: DbErrorType, description: String) -> DbError { unimplemented!() }
}
pub enum DbErrorType { DbCreate, InvalidIndex, NotAllowed, NotEnoughData, NotFound, OutOfBounds, TypeError }

pub assume_specification<T, E> [std::result::Result::<T, E>::unwrap_or] (r: std::result::Result<T, E>, d: T) -> (o: T)
    where E: std::marker::Destruct, T: std::marker::Destruct,
    ensures o == (match r { Ok(v) => v, Err(_) => d });

pub assume_specification<T, E> [std::result::Result::<T, E>::unwrap_or_default] (r: std::result::Result<T, E>) -> (o: T)
    where E: std::marker::Destruct, T: std::default::Default + std::marker::Destruct,
    ensures r is Ok ==> o == r->Ok_0, r is Err ==> call_ensures(T::default, (), o);

//@ item agdb/src/graph.rs | struct GraphIndex | derive

impl vstd::std_specs::convert::FromSpecImpl<i64> for GraphIndex {
    open spec fn obeys_from_spec() -> bool { true }
    open spec fn from_spec(v: i64) -> Self { GraphIndex(v) }
}
impl From<i64> for GraphIndex {
//@ fn agdb/src/graph.rs | impl From<i64> for GraphIndex | from
//@ end
}

impl GraphIndex {
    pub open spec fn slot(&self) -> int { if self.0 < 0 { -(self.0 as int) } else { self.0 as int } }

//@ fn agdb/src/graph.rs | impl GraphIndex | is_edge | ret=r
//@ spec
    ensures r == (self.0 < 0),
//@ end
//@ fn agdb/src/graph.rs | impl GraphIndex | is_node | ret=r
//@ spec
    ensures r == (0 < self.0),
//@ end
//@ fn agdb/src/graph.rs | impl GraphIndex | is_valid | ret=r
//@ spec
    ensures r == (self.0 != 0),
//@ end
//@ fn agdb/src/graph.rs | impl GraphIndex | as_u64 | ret=r
//@ spec
    requires self.0 != i64::MIN, // -i64::MIN overflows: callers must never pass it (see DESIGN, observation)
    ensures r == self.slot(),
//@ end
}

// ---- abstract slot arrays ---------------------------------------------------------------------------
pub struct Arrays { pub f: Seq<i64>, pub t: Seq<i64>, pub fm: Seq<i64>, pub tm: Seq<i64> }

pub open spec fn arrays_wf(a: Arrays) -> bool {
    a.f.len() == a.t.len() && a.f.len() == a.fm.len() && a.f.len() == a.tm.len() && 1 <= a.f.len() < 0x4000_0000_0000_0000
}

pub trait GraphData<D: StorageData> {
    spec fn view(&self) -> Arrays;

    // (the only implementation, GraphDataStorage, returns Ok(self.from.len()) unconditionally)
    fn capacity(&self) -> (r: Result<u64, DbError>)
        ensures r is Ok && r->Ok_0 == self.view().f.len();
    fn commit(&mut self, storage: &mut Storage<D>, id: u64) -> (r: Result<(), DbError>)
        ensures final(self).view() == old(self).view(),
            (id == old(storage).depth() && id > 0) ==> final(storage).depth() == old(storage).depth() - 1,
            (id != old(storage).depth() || id == 0) ==> final(storage).depth() == old(storage).depth();
    fn free_index(&self, storage: &Storage<D>) -> (r: Result<i64, DbError>)
        ensures r is Ok ==> self.view().fm.len() > 0 && r->Ok_0 == self.view().fm[0];
    fn from(&self, storage: &Storage<D>, index: GraphIndex) -> (r: Result<i64, DbError>)
        requires index.0 != i64::MIN,
        ensures r is Ok ==> index.slot() < self.view().f.len() && r->Ok_0 == self.view().f[index.slot()],
            // ASSUMED: reading an existing slot does not fail (no I/O error while reading)
            index.slot() < self.view().f.len() ==> r is Ok;
    fn from_meta(&self, storage: &Storage<D>, index: GraphIndex) -> (r: Result<i64, DbError>)
        requires index.0 != i64::MIN,
        ensures r is Ok ==> index.slot() < self.view().fm.len() && r->Ok_0 == self.view().fm[index.slot()],
            // ASSUMED: reading an existing slot does not fail (no I/O error while reading)
            index.slot() < self.view().fm.len() ==> r is Ok;
    fn to(&self, storage: &Storage<D>, index: GraphIndex) -> (r: Result<i64, DbError>)
        requires index.0 != i64::MIN,
        ensures r is Ok ==> index.slot() < self.view().t.len() && r->Ok_0 == self.view().t[index.slot()],
            // ASSUMED: reading an existing slot does not fail (no I/O error while reading)
            index.slot() < self.view().t.len() ==> r is Ok;
    fn to_meta(&self, storage: &Storage<D>, index: GraphIndex) -> (r: Result<i64, DbError>)
        requires index.0 != i64::MIN,
        ensures r is Ok ==> index.slot() < self.view().tm.len() && r->Ok_0 == self.view().tm[index.slot()],
            // ASSUMED: reading an existing slot does not fail (no I/O error while reading)
            index.slot() < self.view().tm.len() ==> r is Ok;
    fn grow(&mut self, storage: &mut Storage<D>) -> (r: Result<(), DbError>)
        ensures r is Ok ==> final(self).view() == (Arrays { f: old(self).view().f.push(0), t: old(self).view().t.push(0),
                fm: old(self).view().fm.push(0), tm: old(self).view().tm.push(0) })
            && final(storage).depth() == old(storage).depth();
    fn node_count(&self, storage: &Storage<D>) -> (r: Result<u64, DbError>)
        ensures r is Ok ==> self.view().tm.len() > 0 && r->Ok_0 == self.view().tm[0] as u64;
    fn set_from(&mut self, storage: &mut Storage<D>, index: GraphIndex, value: i64) -> (r: Result<(), DbError>)
        requires index.0 != i64::MIN,
        ensures r is Ok ==> index.slot() < old(self).view().f.len()
            && final(self).view() == (Arrays { f: old(self).view().f.update(index.slot(), value), ..old(self).view() })
            && final(storage).depth() == old(storage).depth();
    fn set_from_meta(&mut self, storage: &mut Storage<D>, index: GraphIndex, value: i64) -> (r: Result<(), DbError>)
        requires index.0 != i64::MIN,
        ensures r is Ok ==> index.slot() < old(self).view().fm.len()
            && final(self).view() == (Arrays { fm: old(self).view().fm.update(index.slot(), value), ..old(self).view() })
            && final(storage).depth() == old(storage).depth();
    fn set_node_count(&mut self, storage: &mut Storage<D>, count: u64) -> (r: Result<(), DbError>)
        ensures r is Ok ==> old(self).view().tm.len() > 0
            && final(self).view() == (Arrays { tm: old(self).view().tm.update(0, count as i64), ..old(self).view() })
            && final(storage).depth() == old(storage).depth();
    fn set_to(&mut self, storage: &mut Storage<D>, index: GraphIndex, value: i64) -> (r: Result<(), DbError>)
        requires index.0 != i64::MIN,
        ensures r is Ok ==> index.slot() < old(self).view().t.len()
            && final(self).view() == (Arrays { t: old(self).view().t.update(index.slot(), value), ..old(self).view() })
            && final(storage).depth() == old(storage).depth();
    fn set_to_meta(&mut self, storage: &mut Storage<D>, index: GraphIndex, value: i64) -> (r: Result<(), DbError>)
        requires index.0 != i64::MIN,
        ensures r is Ok ==> index.slot() < old(self).view().tm.len()
            && final(self).view() == (Arrays { tm: old(self).view().tm.update(index.slot(), value), ..old(self).view() })
            && final(storage).depth() == old(storage).depth();
    fn transaction(&mut self, storage: &mut Storage<D>) -> (r: u64)
        ensures final(self).view() == old(self).view(),
            final(storage).depth() == old(storage).depth() + 1, r == final(storage).depth();
}

//@ item agdb/src/graph.rs | struct GraphImpl | pubfields | attr=#[verifier::reject_recursive_types(D)] | attr=#[verifier::reject_recursive_types(Data)]

// ---- slot classification (C08/C18) ------------------------------------------------------------------
pub open spec fn slot_free(a: Arrays, i: int) -> bool { a.fm[i] < 0 }
pub open spec fn slot_edge(a: Arrays, i: int) -> bool { a.fm[i] >= 0 && a.f[i] < 0 }
pub open spec fn slot_node(a: Arrays, i: int) -> bool { a.fm[i] >= 0 && a.f[i] >= 0 }

// the free-slot stack threaded through from_meta: slot 0 holds the head (negated) or i64::MIN;
// every link points to a free slot and no two links point to the same slot
// a freed slot carries no stale endpoints or counts
pub open spec fn free_clean(a: Arrays) -> bool {
    forall|j: int| 0 < j < a.fm.len() && #[trigger] a.fm[j] < 0 ==> a.f[j] == 0 && a.t[j] == 0 && a.tm[j] == 0
}

pub open spec fn lnk(fm: Seq<i64>, j: int) -> int { fm[j] as int }
#[verifier::opaque]
pub open spec fn free_list_ok(fm: Seq<i64>) -> bool {
    &&& lnk(fm, 0) < 0
    &&& forall|j: int| 0 <= j < fm.len() && #[trigger] lnk(fm, j) < 0 && lnk(fm, j) != i64::MIN ==>
            0 < -lnk(fm, j) < fm.len() && lnk(fm, -lnk(fm, j)) < 0
    &&& forall|j1: int, j2: int| #[trigger] inj_at(fm, j1, j2)
}
// no two links point to the same slot (explicitly instantiated in proofs)
pub open spec fn inj_at(fm: Seq<i64>, j1: int, j2: int) -> bool {
    (0 <= j1 < fm.len() && 0 <= j2 < fm.len() && j1 != j2 && lnk(fm, j1) < 0 && lnk(fm, j2) < 0 && lnk(fm, j1) != i64::MIN)
        ==> lnk(fm, j1) != lnk(fm, j2)
}
// what the operations need from the free list: the head is a free slot or the end marker
pub proof fn lemma_head(fm: Seq<i64>)
    requires free_list_ok(fm), fm.len() > 0,
    ensures fm[0] < 0, fm[0] != i64::MIN ==> 0 < -(fm[0] as int) < fm.len() && fm[-(fm[0] as int)] < 0,
{
    reveal(free_list_ok);
    assert(lnk(fm, 0) < 0);
}

pub proof fn lemma_pop(a: Arrays)
    requires arrays_wf(a), free_list_ok(a.fm), a.fm[0] != i64::MIN,
    ensures ({ let i = -(a.fm[0] as int); let b = Arrays { fm: a.fm.update(0, a.fm[i]).update(i, 0), ..a };
        0 < i < a.fm.len() && a.fm[i] < 0 && free_list_ok(b.fm) && arrays_wf(b) })
{
    reveal(free_list_ok);
    let i = -(a.fm[0] as int);
    assert(lnk(a.fm, 0) < 0 && lnk(a.fm, 0) != i64::MIN);
    assert(0 < i < a.fm.len() && lnk(a.fm, i) < 0);
    let b = Arrays { fm: a.fm.update(0, a.fm[i]).update(i, 0), ..a };
    assert(lnk(b.fm, 0) == lnk(a.fm, i));
    assert forall|j: int| 0 <= j < b.fm.len() && #[trigger] lnk(b.fm, j) < 0 && lnk(b.fm, j) != i64::MIN implies
            0 < -lnk(b.fm, j) < b.fm.len() && lnk(b.fm, -lnk(b.fm, j)) < 0 by {
        let src = if j == 0 { i } else { j };
        assert(lnk(b.fm, j) == lnk(a.fm, src));
        let tgt = -lnk(a.fm, src);
        assert(0 < tgt < a.fm.len() && lnk(a.fm, tgt) < 0);
        // tgt != i: otherwise both slot 0 and src link to i
        if tgt == i { assert(inj_at(a.fm, 0, src)); }
        assert(lnk(b.fm, tgt) == lnk(a.fm, tgt));
    }
    assert forall|j1: int, j2: int| #[trigger] inj_at(b.fm, j1, j2) by {
        if 0 <= j1 < b.fm.len() && 0 <= j2 < b.fm.len() && j1 != j2 && lnk(b.fm, j1) < 0 && lnk(b.fm, j2) < 0 {
            let s1 = if j1 == 0 { i } else { j1 };
            let s2 = if j2 == 0 { i } else { j2 };
            assert(lnk(b.fm, j1) == lnk(a.fm, s1) && lnk(b.fm, j2) == lnk(a.fm, s2));
            assert(inj_at(a.fm, s1, s2));
        }
    }
}
pub proof fn lemma_push(a: Arrays, i: int)
    requires arrays_wf(a), free_list_ok(a.fm), 0 < i < a.fm.len(), a.fm[i] >= 0,
    ensures ({ let b = Arrays { fm: a.fm.update(i, a.fm[0]).update(0, (-i) as i64), f: a.f.update(i, 0), t: a.t.update(i, 0), tm: a.tm.update(i, 0) };
        free_list_ok(b.fm) && arrays_wf(b) })
{
    reveal(free_list_ok);
    let b = Arrays { fm: a.fm.update(i, a.fm[0]).update(0, (-i) as i64), f: a.f.update(i, 0), t: a.t.update(i, 0), tm: a.tm.update(i, 0) };
    assert(lnk(b.fm, 0) == -i);
    assert(lnk(b.fm, i) == lnk(a.fm, 0));
    assert forall|j: int| 0 <= j < b.fm.len() && #[trigger] lnk(b.fm, j) < 0 && lnk(b.fm, j) != i64::MIN implies
            0 < -lnk(b.fm, j) < b.fm.len() && lnk(b.fm, -lnk(b.fm, j)) < 0 by {
        if j == 0 { } else {
            let src = if j == i { 0 } else { j };
            assert(lnk(b.fm, j) == lnk(a.fm, src));
            let tgt = -lnk(a.fm, src);
            assert(0 < tgt < a.fm.len() && lnk(a.fm, tgt) < 0);
            assert(tgt != i);
            assert(lnk(b.fm, tgt) == lnk(a.fm, tgt));
        }
    }
    assert forall|j1: int, j2: int| #[trigger] inj_at(b.fm, j1, j2) by {
        if 0 <= j1 < b.fm.len() && 0 <= j2 < b.fm.len() && j1 != j2 && lnk(b.fm, j1) < 0 && lnk(b.fm, j2) < 0 {
            // links to i: only slot 0 (nobody linked to the used slot i before); the other links are
            // those of a with slot i in the role of slot 0
            if j1 == 0 || j2 == 0 {
                let o = if j1 == 0 { j2 } else { j1 };
                let src = if o == i { 0 } else { o };
                assert(lnk(b.fm, o) == lnk(a.fm, src));
                if lnk(a.fm, src) != i64::MIN { assert(lnk(a.fm, -lnk(a.fm, src)) < 0); }
            } else {
                let s1 = if j1 == i { 0 } else { j1 };
                let s2 = if j2 == i { 0 } else { j2 };
                assert(lnk(b.fm, j1) == lnk(a.fm, s1) && lnk(b.fm, j2) == lnk(a.fm, s2));
                assert(inj_at(a.fm, s1, s2));
            }
        }
    }
}
pub proof fn lemma_grow(a: Arrays)
    requires arrays_wf(a), free_list_ok(a.fm), a.f.len() + 1 < 0x4000_0000_0000_0000,
    ensures ({ let b = Arrays { f: a.f.push(0), t: a.t.push(0), fm: a.fm.push(0), tm: a.tm.push(0) }; free_list_ok(b.fm) && arrays_wf(b) })
{
    reveal(free_list_ok);
    let b = Arrays { f: a.f.push(0), t: a.t.push(0), fm: a.fm.push(0), tm: a.tm.push(0) };
    assert forall|j: int| 0 <= j < b.fm.len() && #[trigger] lnk(b.fm, j) < 0 && lnk(b.fm, j) != i64::MIN implies
            0 < -lnk(b.fm, j) < b.fm.len() && lnk(b.fm, -lnk(b.fm, j)) < 0 by {
        assert(j < a.fm.len());
        assert(lnk(b.fm, j) == lnk(a.fm, j));
        assert(lnk(b.fm, -lnk(a.fm, j)) == lnk(a.fm, -lnk(a.fm, j)));
    }
    assert forall|j1: int, j2: int| #[trigger] inj_at(b.fm, j1, j2) by {
        if 0 <= j1 < b.fm.len() && 0 <= j2 < b.fm.len() && j1 != j2 && lnk(b.fm, j1) < 0 && lnk(b.fm, j2) < 0 {
            assert(lnk(b.fm, j1) == lnk(a.fm, j1) && lnk(b.fm, j2) == lnk(a.fm, j2));
            assert(inj_at(a.fm, j1, j2));
        }
    }
}

