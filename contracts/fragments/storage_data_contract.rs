// ---- the common StorageData contract (C06): every back-end refines it; Storage<D> relies on it ---
// Preconditions are the ones Storage<D>'s call sites establish (unit `storage`): a write lies
// inside the data or is a pure append at the end, a read lies inside the data.
pub type StorageSlice<'a> = Cow<'a, [u8]>;

// what a Cow derefs to (std, T2)
pub uninterp spec fn cow_ref<'a, B: ?Sized + ToOwned>(c: Cow<'a, B>) -> &'a B;
pub assume_specification<'a, 'b, B: ?Sized + ToOwned> [<Cow<'a, B> as core::ops::Deref>::deref] (c: &'b Cow<'a, B>) -> (s: &'b B)
    ensures s == cow_ref(*c);
pub open spec fn cow_view<T: Clone>(c: Cow<'_, [T]>) -> Seq<T> { cow_ref(c)@ }

pub trait StorageData: Sized {
    spec fn view(&self) -> Seq<u8>;
    // back-end specific representation invariant (e.g. memory copy == file content)
    spec fn inv(&self) -> bool;
    // file-backed back-ends: what reopening after a crash at this instant restores (C01);
    // flush() is the commit point.  The in-memory back-end has no crash semantics (persistent() == false).
    spec fn persistent(&self) -> bool;
    spec fn recovered(&self) -> Seq<u8>;

    fn flush(&mut self) -> (r: Result<(), DbError>)
        requires old(self).inv(),
        ensures final(self).view() == old(self).view(), r is Ok ==> final(self).inv(),
            // commit point: after a successful flush a crash restores exactly the current content
            final(self).persistent() == old(self).persistent(),
            (r is Ok && old(self).persistent()) ==> final(self).recovered() == final(self).view();

    fn len(&self) -> (r: u64)
        requires self.inv(),
        ensures r == self.view().len();

    fn read(&'_ self, pos: u64, value_len: u64) -> (r: Result<StorageSlice<'_>, DbError>)
        requires self.inv(), pos + value_len <= self.view().len(),
        ensures r is Ok ==> cow_view(r->Ok_0) == self.view().subrange(pos as int, pos + value_len);

    fn resize(&mut self, new_len: u64) -> (r: Result<(), DbError>)
        requires old(self).inv(),
        ensures r is Ok ==> final(self).inv() && final(self).view() == set_len_spec(old(self).view(), new_len as int),
            final(self).persistent() == old(self).persistent(),
            old(self).persistent() ==> final(self).recovered() == old(self).recovered();

    fn write(&mut self, pos: u64, bytes: &[u8]) -> (r: Result<(), DbError>)
        requires old(self).inv(),
            pos + bytes@.len() <= old(self).view().len() || pos == old(self).view().len(),
            pos + bytes@.len() <= u64::MAX,
        ensures r is Ok ==> final(self).inv() && final(self).view() == write_at(old(self).view(), pos as int, bytes@),
            final(self).persistent() == old(self).persistent(),
            old(self).persistent() ==> final(self).recovered() == old(self).recovered();
}
