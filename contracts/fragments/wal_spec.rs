// ---- spec of recovery (taken from the property statement, C01) ---------------------------------
// an undo record: previous bytes at pos; empty bytes = "truncate to pos"
pub struct Rec { pub pos: int, pub value: Seq<u8> }

pub open spec fn apply_rec(data: Seq<u8>, r: Rec) -> Seq<u8> {
    if r.value.len() == 0 { set_len_spec(data, r.pos) } else { write_at(data, r.pos, r.value) }
}

// recovery must undo the logged writes NEWEST FIRST
pub open spec fn undo(data: Seq<u8>, recs: Seq<Rec>) -> Seq<u8>
    decreases recs.len()
{
    if recs.len() == 0 { data } else { undo(apply_rec(data, recs.last()), recs.drop_last()) }
}

pub proof fn lemma_undo_push(d: Seq<u8>, rs: Seq<Rec>, r: Rec)
    ensures undo(d, rs.push(r)) == undo(apply_rec(d, r), rs)
{
    assert(rs.push(r).last() == r);
    assert(rs.push(r).drop_last() =~= rs);
}

// undo of a (possibly torn) data write, for a write that is inside the file or a pure append
pub proof fn lemma_write_undo(d: Seq<u8>, p: int, w: Seq<u8>, k: int)
    requires 0 <= p, 0 <= k <= w.len(), p + w.len() <= d.len() || p == d.len(), w.len() > 0 || p == d.len(),
    ensures ({
        let old_slice = d.subrange(p, if d.len() <= p + w.len() { d.len() as int } else { p + w.len() });
        apply_rec(write_at(d, p, w.subrange(0, k)), Rec { pos: p, value: old_slice }) =~= d
    })
{
    let old_slice = d.subrange(p, if d.len() <= p + w.len() { d.len() as int } else { p + w.len() });
    let d2 = write_at(d, p, w.subrange(0, k));
    if p == d.len() {
        assert(old_slice.len() == 0);
        assert(d2.subrange(0, p) =~= d);
    } else {
        assert(old_slice.len() == w.len());
        assert(d2.len() == d.len());
        assert(write_at(d2, p, old_slice) =~= d);
    }
}
