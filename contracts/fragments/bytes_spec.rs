pub open spec fn zeros(n: int) -> Seq<u8> { Seq::new(n as nat, |i: int| 0u8) }

pub open spec fn set_len_spec(b: Seq<u8>, n: int) -> Seq<u8> {
    if n <= b.len() { b.subrange(0, n) } else { b + zeros(n - b.len()) }
}

pub open spec fn write_at(b: Seq<u8>, pos: int, w: Seq<u8>) -> Seq<u8> {
    if w.len() == 0 { b }
    else if pos + w.len() <= b.len() { b.subrange(0, pos) + w + b.subrange(pos + w.len(), b.len() as int) }
    else if pos <= b.len() { b.subrange(0, pos) + w }
    else { b + zeros(pos - b.len()) + w }
}
