// ---- DbError: opaque error value; message text is not observable by any property (R1) ----------
pub struct DbError { pub code: u8 }
pub enum DbErrorType { DbCreate, InvalidIndex, NotAllowed, NotEnoughData, NotFound, OutOfBounds, TypeError }

#[verifier::external_body]
pub fn err_msg() -> String { unimplemented!() }
#[verifier::external_body]
pub fn err_str() -> &'static str { unimplemented!() }

impl DbError {
    #[verifier::external_body]
    pub fn storage(ty: DbErrorType, description: String) -> DbError { unimplemented!() }
    #[verifier::external_body]
    pub fn db(ty: DbErrorType, description: String) -> DbError { unimplemented!() }
    #[verifier::external_body]
    pub fn graph(ty: DbErrorType, description: String) -> DbError { unimplemented!() }
    #[verifier::external_body]
    pub fn collections(ty: DbErrorType, description: String) -> DbError { unimplemented!() }
    #[verifier::external_body]
    pub fn query(ty: DbErrorType, description: String) -> DbError { unimplemented!() }
    #[verifier::external_body]
    pub fn serialization(ty: DbErrorType, description: String) -> DbError { unimplemented!() }
}
