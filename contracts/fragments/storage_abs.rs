// ---- abstract Storage<D> as seen from the collections/graph/db layers -------------------------
// Opaque; the only observable used by these units is the transaction nesting depth (C32, C03) .
// The contracts of transaction()/commit() below are the ones proved for the real functions in
// unit `txn` (Storage::begin_transaction / end_transaction); same text is included there.
pub struct DbError { pub code: u8 }

#[verifier::external_body]
pub fn err_msg() -> String { unimplemented!() }

pub trait StorageData: Sized {}

#[verifier::external_body]
#[verifier::reject_recursive_types(D)]
pub struct Storage<D: StorageData> { d: D }

impl<D: StorageData> Storage<D> {
    pub uninterp spec fn depth(&self) -> nat;
}
