// ---- T1: trusted POSIX-like model of std::fs::File (stand-in type with the same method names) ----
// contents = Seq<u8> + cursor.  A failed or torn write_all leaves some prefix of the buffer written.
pub enum SeekFrom { Start(u64), End(i64), Current(i64) }

pub struct IoError { pub c: u8 }

impl vstd::std_specs::convert::FromSpecImpl<IoError> for DbError {
    open spec fn obeys_from_spec() -> bool { true }
    open spec fn from_spec(v: IoError) -> Self { DbError { code: 1 } }
}
impl From<IoError> for DbError {
    fn from(e: IoError) -> Self { DbError { code: 1 } }
}

#[verifier::external_body]
pub struct File { x: u8 }

pub struct FileState { pub bytes: Seq<u8>, pub cursor: int }

//@ include fragments/bytes_spec.rs

impl File {
    pub uninterp spec fn view(&self) -> FileState;

    #[verifier::external_body]
    pub fn seek(&mut self, pos: SeekFrom) -> (r: Result<u64, IoError>)
        ensures
            final(self)@.bytes == old(self)@.bytes,
            r is Ok ==> final(self)@.cursor >= 0 && r->Ok_0 as int == final(self)@.cursor && (match pos {
                SeekFrom::Start(p) => final(self)@.cursor == p as int,
                SeekFrom::End(d) => final(self)@.cursor == old(self)@.bytes.len() + d,
                SeekFrom::Current(d) => final(self)@.cursor == old(self)@.cursor + d,
            }),
            r is Err ==> final(self)@ == old(self)@,
    { unimplemented!() }

    #[verifier::external_body]
    pub fn rewind(&mut self) -> (r: Result<(), IoError>)
        ensures final(self)@.bytes == old(self)@.bytes,
            r is Ok ==> final(self)@.cursor == 0,
            r is Err ==> final(self)@ == old(self)@,
    { unimplemented!() }

    #[verifier::external_body]
    pub fn stream_position(&mut self) -> (r: Result<u64, IoError>)
        ensures final(self)@ == old(self)@, r is Ok ==> r->Ok_0 as int == old(self)@.cursor,
    { unimplemented!() }

    #[verifier::external_body]
    pub fn write_all(&mut self, buf: &[u8]) -> (r: Result<(), IoError>)
        requires old(self)@.cursor >= 0,
        ensures
            r is Ok ==> final(self)@.bytes == write_at(old(self)@.bytes, old(self)@.cursor, buf@)
                && final(self)@.cursor == old(self)@.cursor + buf@.len(),
            // failed or torn write: some prefix of buf was written
            r is Err ==> exists|k: int| 0 <= k <= buf@.len() && final(self)@.bytes == write_at(old(self)@.bytes, old(self)@.cursor, buf@.subrange(0, k)),
    { unimplemented!() }

    #[verifier::external_body]
    pub fn read_exact(&mut self, buf: &mut [u8]) -> (r: Result<(), IoError>)
        ensures
            final(self)@.bytes == old(self)@.bytes,
            final(buf)@.len() == old(buf)@.len(),
            r is Ok ==> old(self)@.cursor >= 0 && old(self)@.cursor + old(buf)@.len() <= old(self)@.bytes.len()
                && final(buf)@ == old(self)@.bytes.subrange(old(self)@.cursor, old(self)@.cursor + old(buf)@.len())
                && final(self)@.cursor == old(self)@.cursor + old(buf)@.len(),
    { unimplemented!() }

    #[verifier::external_body]
    pub fn set_len(&mut self, size: u64) -> (r: Result<(), IoError>)
        ensures
            r is Ok ==> final(self)@.bytes == set_len_spec(old(self)@.bytes, size as int),
            r is Err ==> final(self)@.bytes == old(self)@.bytes,
            final(self)@.cursor == old(self)@.cursor,
    { unimplemented!() }
}
