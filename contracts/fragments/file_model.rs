// ---- T1: trusted POSIX-like model of std::fs::File (stand-in type with the same method names) ----
// contents = Seq<u8> + cursor.  A failed or torn write_all leaves some prefix of the buffer written.
pub enum SeekFrom { Start(u64), End(i64), Current(i64) }

pub struct IoError { pub c: u8 }

impl vstd::std_specs::convert::FromSpecImpl<IoError> for DbError {
    open spec fn obeys_from_spec() -> bool { true }
    open spec fn from_spec(v: IoError) -> Self { DbError { code: 1 } }
}
impl From<IoError> for DbError {
    fn from(e: IoError) -> Self { DbError { code: 1 } }
}

#[verifier::external_body]
pub struct File { x: u8 }

pub struct FileState { pub bytes: Seq<u8>, pub cursor: int }

//@ include fragments/bytes_spec.rs

impl File {
    pub uninterp spec fn view(&self) -> FileState;
    // a handle on which positioning and in-range reads do not fail (no I/O error); no call changes it
    pub uninterp spec fn reliable(&self) -> bool;

    #[verifier::external_body]
    pub fn seek(&mut self, pos: SeekFrom) -> (r: Result<u64, IoError>)
        ensures
            final(self)@.bytes == old(self)@.bytes,
            r is Ok ==> final(self)@.cursor >= 0 && r->Ok_0 as int == final(self)@.cursor && (match pos {
                SeekFrom::Start(p) => final(self)@.cursor == p as int,
                SeekFrom::End(d) => final(self)@.cursor == old(self)@.bytes.len() + d,
                SeekFrom::Current(d) => final(self)@.cursor == old(self)@.cursor + d,
            }),
            r is Err ==> final(self)@ == old(self)@,
            final(self).reliable() == old(self).reliable(),
            old(self).reliable() ==> (r is Ok <==> (match pos {
                SeekFrom::Start(p) => true,
                SeekFrom::End(d) => old(self)@.bytes.len() + d >= 0,
                SeekFrom::Current(d) => old(self)@.cursor + d >= 0,
            })),
    { unimplemented!() }

    #[verifier::external_body]
    pub fn rewind(&mut self) -> (r: Result<(), IoError>)
        ensures final(self)@.bytes == old(self)@.bytes,
            r is Ok ==> final(self)@.cursor == 0,
            r is Err ==> final(self)@ == old(self)@,
            final(self).reliable() == old(self).reliable(), old(self).reliable() ==> r is Ok,
    { unimplemented!() }

    #[verifier::external_body]
    pub fn stream_position(&mut self) -> (r: Result<u64, IoError>)
        ensures final(self)@ == old(self)@, r is Ok ==> r->Ok_0 as int == old(self)@.cursor,
            final(self).reliable() == old(self).reliable(), (old(self).reliable() && 0 <= old(self)@.cursor <= u64::MAX) ==> r is Ok,
    { unimplemented!() }

    #[verifier::external_body]
    pub fn write_all(&mut self, buf: &[u8]) -> (r: Result<(), IoError>)
        requires old(self)@.cursor >= 0,
        ensures
            r is Ok ==> final(self)@.bytes == write_at(old(self)@.bytes, old(self)@.cursor, buf@)
                && final(self)@.cursor == old(self)@.cursor + buf@.len(),
            // failed or torn write: some prefix of buf was written
            r is Err ==> exists|k: int| 0 <= k <= buf@.len() && final(self)@.bytes == write_at(old(self)@.bytes, old(self)@.cursor, buf@.subrange(0, k)),
            final(self).reliable() == old(self).reliable(),
    { unimplemented!() }

    #[verifier::external_body]
    pub fn read_exact(&mut self, buf: &mut [u8]) -> (r: Result<(), IoError>)
        ensures
            final(self)@.bytes == old(self)@.bytes,
            final(buf)@.len() == old(buf)@.len(),
            r is Ok ==> old(self)@.cursor >= 0 && old(self)@.cursor + old(buf)@.len() <= old(self)@.bytes.len()
                && final(buf)@ == old(self)@.bytes.subrange(old(self)@.cursor, old(self)@.cursor + old(buf)@.len())
                && final(self)@.cursor == old(self)@.cursor + old(buf)@.len(),
            final(self).reliable() == old(self).reliable(),
            (old(self).reliable() && old(self)@.cursor >= 0 && old(self)@.cursor + old(buf)@.len() <= old(self)@.bytes.len()) ==> r is Ok,
            r is Err ==> final(self)@.cursor >= old(self)@.cursor,
    { unimplemented!() }

    #[verifier::external_body]
    pub fn set_len(&mut self, size: u64) -> (r: Result<(), IoError>)
        ensures
            r is Ok ==> final(self)@.bytes == set_len_spec(old(self)@.bytes, size as int),
            r is Err ==> final(self)@.bytes == old(self)@.bytes,
            final(self)@.cursor == old(self)@.cursor,
            final(self).reliable() == old(self).reliable(),
    { unimplemented!() }
}

// ---- opening a file by name: the content found on disk (T1).  Only the truncate flag of the builder matters here.
pub uninterp spec fn disk(name: Seq<char>) -> Seq<u8>;

#[verifier::external_body]
pub struct OpenOptions { x: u8 }
impl OpenOptions {
    pub uninterp spec fn truncates(&self) -> bool;
    #[verifier::external_body]
    pub fn new() -> (r: OpenOptions) ensures !r.truncates() { unimplemented!() }
    #[verifier::external_body]
    pub fn read(&mut self, read: bool) -> (r: &mut OpenOptions)
        ensures (*r).truncates() == old(self).truncates(), final(self).truncates() == (*final(r)).truncates() { unimplemented!() }
    #[verifier::external_body]
    pub fn write(&mut self, write: bool) -> (r: &mut OpenOptions)
        ensures (*r).truncates() == old(self).truncates(), final(self).truncates() == (*final(r)).truncates() { unimplemented!() }
    #[verifier::external_body]
    pub fn create(&mut self, create: bool) -> (r: &mut OpenOptions)
        ensures (*r).truncates() == old(self).truncates(), final(self).truncates() == (*final(r)).truncates() { unimplemented!() }
    #[verifier::external_body]
    pub fn truncate(&mut self, truncate: bool) -> (r: &mut OpenOptions)
        ensures (*r).truncates() == truncate, final(self).truncates() == (*final(r)).truncates() { unimplemented!() }
    #[verifier::external_body]
    pub fn open<P: PathLike>(&self, path: P) -> (r: Result<File, IoError>)
        ensures r is Ok ==> r->Ok_0@.cursor == 0 && r->Ok_0@.bytes == (if self.truncates() { Seq::<u8>::empty() } else { disk(path.chars()) }),
    { unimplemented!() }
}
// what `AsRef<Path>` is used for here: a file name given as &str or String
pub trait PathLike { spec fn chars(&self) -> Seq<char>; }
impl PathLike for &str { open spec fn chars(&self) -> Seq<char> { self@ } }
impl PathLike for String { open spec fn chars(&self) -> Seq<char> { self@ } }

