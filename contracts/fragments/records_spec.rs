    // abstract view of the record table and free-region index, and the allocator invariant over it (shared by units storage and open)
    pub uninterp spec fn live(&self) -> Map<u64, Region>;
    pub uninterp spec fn free(&self) -> Map<int, int>;
    pub open spec fn freg(&self, p: int) -> Region { Region { pos: p, size: self.free()[p] } }

    pub open spec fn all_inside(&self, len: int) -> bool {
        &&& forall|i: u64| #[trigger] self.live().contains_key(i) ==> inside(self.live()[i], len) && i != 0
        &&& forall|p: int| #[trigger] self.free().contains_key(p) ==> inside(self.freg(p), len)
    }
    // reg overlaps no free region
    pub open spec fn clear_of_free(&self, reg: Region) -> bool {
        forall|p: int| #[trigger] self.free().contains_key(p) ==> disj(reg, self.freg(p))
    }
    // reg overlaps no live region other than x's
    pub open spec fn clear_of_live(&self, reg: Region, x: u64) -> bool {
        forall|i: u64| #[trigger] self.live().contains_key(i) && i != x ==> disj(reg, self.live()[i])
    }
    // all regions are pairwise disjoint, not counting the live region of index x (0: none excepted)
    pub open spec fn live_live(&self, x: u64) -> bool {
        forall|i: u64, j: u64| #[trigger] self.live().contains_key(i) && #[trigger] self.live().contains_key(j) && i != j && i != x && j != x ==> disj(self.live()[i], self.live()[j])
    }
    pub open spec fn live_free(&self, x: u64) -> bool {
        forall|i: u64, p: int| #[trigger] self.live().contains_key(i) && #[trigger] self.free().contains_key(p) && i != x ==> disj(self.live()[i], self.freg(p))
    }
    pub open spec fn free_free(&self) -> bool {
        forall|p: int, q: int| #[trigger] self.free().contains_key(p) && #[trigger] self.free().contains_key(q) && p != q ==> disj(self.freg(p), self.freg(q))
    }
    pub open spec fn disjoint_except(&self, x: u64) -> bool { self.live_live(x) && self.live_free(x) && self.free_free() }
