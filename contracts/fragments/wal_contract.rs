    // ---- record-level contract of the log (assumed in unit `wal`; unit `wal_bytes` proves the Ok clauses byte-level) ----
    // a failed or torn append is discarded by repair() on the next open, so at record level it
    // leaves the log unchanged
    #[verifier::external_body]
    pub fn insert(&mut self, pos: u64, value: &[u8]) -> (r: Result<(), DbError>)
        ensures
            r is Ok ==> final(self).recs() == old(self).recs().push(Rec { pos: pos as int, value: value@ }),
            r is Err ==> final(self).recs() == old(self).recs(),
    { unimplemented!() }

    #[verifier::external_body]
    pub fn records(&mut self) -> (r: Result<Vec<WriteAheadLogRecord>, DbError>)
        ensures
            final(self).recs() == old(self).recs(),
            r is Ok ==> recs_view(r->Ok_0@) == old(self).recs(),
    { unimplemented!() }

    #[verifier::external_body]
    pub fn clear(&mut self) -> (r: Result<(), DbError>)
        ensures
            r is Ok ==> final(self).recs().len() == 0,
            r is Err ==> final(self).recs() == old(self).recs(),
    { unimplemented!() }
