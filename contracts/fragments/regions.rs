// regions of the database file: a 16-byte header followed by `size` value bytes (shared by units storage and open)
pub struct Region { pub pos: int, pub size: int }
pub open spec fn rend(r: Region) -> int { r.pos + 16 + r.size }
pub open spec fn inside(r: Region, len: int) -> bool { 24 <= r.pos && 0 <= r.size && rend(r) <= len }
pub open spec fn disj(a: Region, b: Region) -> bool { rend(a) <= b.pos || rend(b) <= a.pos }
