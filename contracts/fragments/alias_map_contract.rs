    // ---- contract of the bidirectional alias map (IndexedMapImpl<String, DbId, ..>) ---------------
    // view: alias -> id; the map is injective (each id has at most one alias): C10.
    // (assumed in unit db_ops; the same clauses are proved for the real IndexedMapImpl in unit aliases)
    #[verifier::external_body]
    pub fn insert(&mut self, storage: &mut Storage<D>, key: &String, value: &DbId) -> (r: Result<(), DbError>)
        requires old(self).inj(),
        ensures
            r is Ok ==> final(self).inj() && final(self)@ == without_value(old(self)@, *value).insert(key@, *value)
                && final(storage).depth() == old(storage).depth(),
            final(storage).depth() >= old(storage).depth(),
    { unimplemented!() }

    #[verifier::external_body]
    pub fn remove_key(&mut self, storage: &mut Storage<D>, key: &String) -> (r: Result<(), DbError>)
        requires old(self).inj(),
        ensures
            r is Ok ==> final(self).inj() && final(self)@ == old(self)@.remove(key@)
                && final(storage).depth() == old(storage).depth(),
            final(storage).depth() >= old(storage).depth(),
    { unimplemented!() }

    #[verifier::external_body]
    pub fn key(&self, storage: &Storage<D>, value: &DbId) -> (r: Result<Option<String>, DbError>)
        requires self.inj(),
        ensures
            r is Ok && r->Ok_0 is Some ==> self@.contains_key(r->Ok_0->Some_0@) && self@[r->Ok_0->Some_0@] == *value,
            r is Ok && r->Ok_0 is None ==> without_value(self@, *value) == self@,
    { unimplemented!() }

    #[verifier::external_body]
    pub fn value(&self, storage: &Storage<D>, key: &String) -> (r: Result<Option<DbId>, DbError>)
        ensures
            r is Ok && r->Ok_0 is Some ==> self@.contains_key(key@) && self@[key@] == r->Ok_0->Some_0,
            r is Ok && r->Ok_0 is None ==> !self@.contains_key(key@),
    { unimplemented!() }
