// ---- opaque components of DbImpl (their own contracts live in other units) ---------------------
#[verifier::external_body]
#[verifier::reject_recursive_types(S)]
pub struct DbGraph<S: StorageData> { s: core::marker::PhantomData<S> }
#[verifier::external_body]
#[verifier::reject_recursive_types(K)]
#[verifier::reject_recursive_types(T)]
#[verifier::reject_recursive_types(S)]
pub struct DbIndexedMap<K, T, S: StorageData> { s: core::marker::PhantomData<(K, T, S)> }
#[verifier::external_body]
#[verifier::reject_recursive_types(S)]
pub struct DbIndexes<S: StorageData> { s: core::marker::PhantomData<S> }
#[verifier::external_body]
#[verifier::reject_recursive_types(S)]
pub struct DbKeyValues<S: StorageData> { s: core::marker::PhantomData<S> }
pub struct DbId(pub i64);
