// Kani harness appended to a scratch copy of agdb/src/graph_search/element_search.rs.
// BOUNDED (3 slots: two elements): ElementSearch::search over symbolic slot arrays and a symbolic handler script, against the
// C18 statement: every existing (non-free) slot is examined exactly once, in increasing slot order, with its
// ordinal as distance and with the sign telling node from edge; an element is returned iff the handler selects it
// (for Continue, Stop and Finish alike); Finish ends the search; a freed slot is never examined or returned.
#[cfg(kani)]
mod verif_kani {
    use super::*;
    use crate::graph::verif_kani_graph::{graph_over, ArrData, N};
    use crate::storage::verif_kani_helper::recordless_storage;

    struct Script {
        kind: [u8; N],
        add: [bool; N],
        calls: usize,
        seen: [i64; N],
        dist: [u64; N],
    }

    impl SearchHandler for Script {
        fn process(&mut self, index: GraphIndex, distance: u64) -> Result<SearchControl, DbError> {
            let k = self.calls % N;
            self.seen[k] = index.0;
            self.dist[k] = distance;
            self.calls += 1;
            Ok(match self.kind[k] {
                0 => SearchControl::Continue(self.add[k]),
                1 => SearchControl::Stop(self.add[k]),
                _ => SearchControl::Finish(self.add[k]),
            })
        }
    }

    #[kani::proof]
    #[kani::unwind(4)]
    fn c18_element_search_visits_existing_slots_in_order() {
        let f: [i64; N] = kani::any();
        let fm: [i64; N] = kani::any();
        let kind: [u8; N] = kani::any();
        let add: [bool; N] = kani::any();
        let mut i = 0;
        while i < N {
            kani::assume(kind[i] < 3);
            i += 1;
        }
        let graph = graph_over(ArrData { f, t: [0; N], fm, tm: [0; N] });
        let storage = recordless_storage();
        let handler = Script { kind, add, calls: 0, seen: [0; N], dist: [0; N] };
        let mut search = ElementSearch::new(&graph, &storage, handler);
        let result = search.search();
        assert!(result.is_ok());
        let result = result.unwrap();

        // the model: walk the slots 1..N in order
        let mut want_calls = 0usize;
        let mut want_len = 0usize;
        let mut finished = false;
        let mut s = 1usize;
        while s < N {
            if !finished && fm[s] >= 0 {
                let id = if f[s] < 0 { -(s as i64) } else { s as i64 };
                // examined exactly once, in slot order, with its ordinal as the distance
                assert!(search.handler.seen[want_calls] == id);
                assert!(search.handler.dist[want_calls] == want_calls as u64);
                if add[want_calls] {
                    assert!(want_len < result.len());
                    assert!(result[want_len].0 == id);
                    want_len += 1;
                }
                if kind[want_calls] == 2 {
                    finished = true;
                }
                want_calls += 1;
            }
            s += 1;
        }
        assert!(search.handler.calls == want_calls);
        assert!(result.len() == want_len);
    }
}
