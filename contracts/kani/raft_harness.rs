// Kani harnesses appended to a copy of agdb_server/src/raft.rs inside the harness crate.
#[cfg(kani)]
mod verif_kani {
    use super::*;
    use std::future::Future;
    use std::pin::pin;
    use std::task::Context;
    use std::task::Poll;
    use std::task::Waker;

    // the shim storage never pends: one poll completes every future of raft.rs
    fn block_on<F: Future>(f: F) -> F::Output {
        let mut f = pin!(f);
        let mut cx = Context::from_waker(Waker::noop());
        match f.as_mut().poll(&mut cx) {
            Poll::Ready(v) => v,
            Poll::Pending => unreachable!(),
        }
    }

    // T8: in-memory log storage that mirrors the two facts of ClusterStorage the properties need:
    // append truncates the log from the appended index on; commit records the commit index.
    // The checks C28.committed_prefix_kept / C28.commit_monotone are the assertions inside it.
    struct VStorage {
        index: u64,
        term: u64,
        commit: u64,
    }

    impl Storage<u8, ()> for VStorage {
        async fn append(&mut self, log: Log<u8>, _notifier: Option<()>) -> ServerResult<()> {
            // C28.committed_prefix_kept: an append (which truncates from log.index on) never reaches
            // into the committed prefix
            assert!(log.index > self.commit);
            self.index = log.index;
            self.term = log.term;
            Ok(())
        }

        async fn commit(&mut self, index: u64) -> ServerResult<()> {
            // C28.commit_monotone (storage side)
            assert!(index >= self.commit);
            self.commit = index;
            Ok(())
        }

        fn log_index(&self) -> u64 {
            self.index
        }

        fn log_term(&self) -> u64 {
            self.term
        }

        fn log_commit(&self) -> u64 {
            self.commit
        }

        async fn logs(&self, _from_index: u64) -> ServerResult<Vec<Log<u8>>> {
            Ok(vec![])
        }
    }

    type C = Cluster<u8, (), VStorage>;

    const SIZE: u64 = 3;

    fn any_state() -> ClusterState {
        any_state_n(SIZE)
    }

    fn any_state_n(size: u64) -> ClusterState {
        let k: u8 = kani::any();
        kani::assume(k < 5);
        match k {
            0 => ClusterState::Candidate,
            1 => ClusterState::Election,
            2 => {
                let l: u64 = kani::any();
                kani::assume(l < size);
                ClusterState::Follower(l)
            }
            3 => ClusterState::Leader,
            _ => ClusterState::Voted(kani::any()),
        }
    }

    // an arbitrary well-formed node state of a 3-node cluster: every field is symbolic
    fn any_cluster() -> C {
        any_cluster_n(SIZE)
    }

    // the same for a cluster of `size` nodes (size is a constant per call)
    fn any_cluster_n(size: u64) -> C {
        let index: u64 = kani::any();
        kani::assume(index < size);
        let mut c = Cluster::new(
            VStorage { index: 0, term: 0, commit: 0 },
            ClusterSettings {
                index,
                size,
                hash: 1,
                election_factor_ms: 1,
                heartbeat_timeout: Duration::from_millis(1),
                term_timeout: Duration::from_millis(3),
            },
        );
        c.state = any_state_n(size);
        c.term = kani::any();
        kani::assume(c.term < u64::MAX - 2);
        let mut i = 0;
        while i < size as usize {
            c.nodes[i].log_index = kani::any();
            c.nodes[i].log_term = kani::any();
            c.nodes[i].log_commit = kani::any();
            c.nodes[i].voted = kani::any();
            kani::assume(c.nodes[i].log_index < u64::MAX - 2);
            i += 1;
        }
        // the local node's counters mirror its storage (Cluster::new, append_storage, commit_storage)
        c.storage.index = c.nodes[index as usize].log_index;
        c.storage.term = c.nodes[index as usize].log_term;
        c.storage.commit = c.nodes[index as usize].log_commit;
        c
    }

    fn any_request(c: &C, data: RequestType<u8>) -> Request<u8> {
        let sender: u64 = kani::any();
        // messages come from the other nodes of the cluster
        kani::assume(sender < SIZE && sender != c.index);
        Request {
            hash: kani::any(),
            index: sender,
            target: c.index,
            term: kani::any(),
            log_index: kani::any(),
            log_term: kani::any(),
            log_commit: kani::any(),
            data,
        }
    }

    // ghost: the highest term in which this node has answered a Vote request with Ok.
    // Inv: the node's own term is at least that term, so validate_term_for_vote (self.term >= request.term
    // is refused) never grants it again.  Inv is inductive because every transition keeps the term
    // monotone (asserted by each harness) and a grant raises the term to the granted one.
    fn inv(c: &C, granted: Option<u64>) -> bool {
        match granted {
            None => true,
            Some(t) => c.term >= t,
        }
    }

    fn any_granted() -> Option<u64> {
        if kani::any() { Some(kani::any()) } else { None }
    }

    // C27.single_vote: a vote is granted only for a term above every term granted before, and the
    // grant is remembered (Inv holds afterwards for the new term)
    #[kani::proof]
    #[kani::unwind(5)]
    fn c27_vote_request_grants_each_term_once() {
        let mut c = any_cluster();
        let granted = any_granted();
        kani::assume(inv(&c, granted));
        let request = any_request(&c, RequestType::Vote);
        let commit_before = c.local().log_commit;
        let term_before = c.term;
        let response = block_on(c.request(&request));
        if matches!(response.result, ResponseType::Ok) {
            if let Some(t) = granted {
                assert!(request.term > t);
            }
            assert!(inv(&c, Some(request.term)));
        } else {
            assert!(inv(&c, granted));
        }
        assert!(c.local().log_commit >= commit_before);
        // C27.term_monotone
        assert!(c.term >= term_before);
    }

    // C27.single_vote: timers (process) never make a granted term grantable again
    #[kani::proof]
    #[kani::unwind(5)]
    fn c27_process_keeps_vote_memory() {
        let mut c = any_cluster();
        let granted = any_granted();
        kani::assume(inv(&c, granted));
        let commit_before = c.local().log_commit;
        let term_before = c.term;
        let _ = c.process();
        assert!(inv(&c, granted));
        assert!(c.local().log_commit >= commit_before);
        // C27.term_monotone
        assert!(c.term >= term_before);
    }

    fn other_request(data: RequestType<u8>) {
        let mut c = any_cluster();
        let granted = any_granted();
        kani::assume(inv(&c, granted));
        let request = any_request(&c, data);
        let commit_before = c.local().log_commit;
        let term_before = c.term;
        let _ = block_on(c.request(&request));
        assert!(inv(&c, granted));
        // C28.commit_monotone
        assert!(c.local().log_commit >= commit_before);
        // C27.term_monotone
        assert!(c.term >= term_before);
    }

    // C27.single_vote + C28.commit_monotone: PreVote requests
    #[kani::proof]
    #[kani::unwind(5)]
    fn c27_prevote_request_keeps_vote_memory() {
        other_request(RequestType::PreVote);
    }

    // C27.single_vote + C28.commit_monotone: Heartbeat requests
    #[kani::proof]
    #[kani::unwind(5)]
    fn c27_heartbeat_request_keeps_vote_memory() {
        other_request(RequestType::Heartbeat);
    }

    fn append_with(n: usize) {
        let mut c = any_cluster();
        let granted = any_granted();
        kani::assume(inv(&c, granted));
        let mut logs = vec![];
        let mut i = 0;
        while i < n {
            logs.push(Log { db_id: None, index: kani::any(), term: kani::any(), data: 0_u8 });
            i += 1;
        }
        let request = any_request(&c, RequestType::Append(logs));
        let commit_before = c.local().log_commit;
        let term_before = c.term;
        let log_index_before = c.local().log_index;
        let log_term_before = c.local().log_term;
        let res = block_on(c.request(&request));
        assert!(inv(&c, granted));
        assert!(c.local().log_commit >= commit_before);
        // C27.term_monotone
        assert!(c.term >= term_before);
        // C28.stale_leader_refused: entries of a leader of an older term are not accepted (they could
        // overwrite what the leader of the newer term has replicated and committed)
        if request.term < term_before {
            assert!(!matches!(res.result, ResponseType::Ok));
            assert!(c.local().log_index == log_index_before && c.local().log_term == log_term_before);
            assert!(c.local().log_commit == commit_before);
        }
    }

    // C27.single_vote + C28 (commit monotone, committed prefix kept): Append requests carrying 0, 1 or 2
    // entries (the number of entries is a constant per call: bounded)
    #[kani::proof]
    #[kani::unwind(5)]
    fn c28_append_request_0() {
        append_with(0);
    }

    #[kani::proof]
    #[kani::unwind(5)]
    fn c28_append_request_1() {
        append_with(1);
    }

    #[kani::proof]
    #[kani::unwind(5)]
    fn c28_append_request_2() {
        append_with(2);
    }

    fn any_response(c: &C) -> Response {
        let k: u8 = kani::any();
        kani::assume(k < 4);
        let mv = MismatchedValues { local: if kani::any() { Some(kani::any()) } else { None }, requested: None };
        Response {
            target: c.index,
            result: match k {
                0 => ResponseType::Ok,
                1 => ResponseType::TermMismatch(mv),
                2 => ResponseType::LeaderMismatch(mv),
                _ => ResponseType::AlreadyVoted(mv),
            },
        }
    }

    // a request this node sent earlier (any earlier term: responses may be arbitrarily late)
    fn any_sent_request(c: &C, data: RequestType<u8>) -> Request<u8> {
        any_sent_request_n(c, data, SIZE)
    }

    fn any_sent_request_n(c: &C, data: RequestType<u8>, size: u64) -> Request<u8> {
        let target: u64 = kani::any();
        kani::assume(target < size && target != c.index);
        Request {
            hash: 1,
            index: c.index,
            target,
            term: kani::any(),
            log_index: kani::any(),
            log_term: kani::any(),
            log_commit: kani::any(),
            data,
        }
    }

    // C27.votes_current: a candidate becomes leader only on votes for its CURRENT term, from a majority
    #[kani::proof]
    #[kani::unwind(5)]
    fn c27_leader_only_on_current_term_majority() {
        let mut c = any_cluster();
        kani::assume(matches!(c.state, ClusterState::Candidate));
        // a candidate counts itself
        let me = c.index;
        c.nodes[me as usize].voted = true;
        let term_before = c.term;
        let request = any_sent_request(&c, RequestType::Vote);
        let response = Response { target: c.index, result: ResponseType::Ok };
        let _ = block_on(c.response(&request, &response));
        if matches!(c.state, ClusterState::Leader) {
            assert!(request.term == term_before);
            assert!(c.term == term_before);
            let votes = c.nodes.iter().filter(|n| n.voted).count() as u64;
            assert!(votes > SIZE / 2);
        }
    }

    // the same for FIVE nodes: here a strict majority (3) differs from half of the nodes (2), which it does not for 3
    #[kani::proof]
    #[kani::unwind(7)]
    fn c27_leader_needs_strict_majority_of_5() {
        let mut c = any_cluster_n(5);
        kani::assume(matches!(c.state, ClusterState::Candidate));
        let me = c.index;
        c.nodes[me as usize].voted = true;
        let term_before = c.term;
        let request = any_sent_request_n(&c, RequestType::Vote, 5);
        let response = Response { target: c.index, result: ResponseType::Ok };
        let _ = block_on(c.response(&request, &response));
        if matches!(c.state, ClusterState::Leader) {
            assert!(request.term == term_before);
            let votes = c.nodes.iter().filter(|n| n.voted).count() as u64;
            assert!(votes >= 3);
        }
    }

    // C28.leader_commit_rule for FIVE nodes (a strict majority is 3)
    #[kani::proof]
    #[kani::unwind(7)]
    fn c28_leader_commits_on_majority_of_5() {
        let mut c = any_cluster_n(5);
        kani::assume(matches!(c.state, ClusterState::Leader));
        let request = any_sent_request_n(&c, RequestType::Heartbeat, 5);
        let response = Response { target: c.index, result: ResponseType::Ok };
        let commit_before = c.local().log_commit;
        let _ = block_on(c.response(&request, &response));
        let commit_after = c.local().log_commit;
        assert!(commit_after >= commit_before);
        if commit_after > commit_before {
            let have = c.nodes.iter().filter(|n| n.log_index >= commit_after).count() as u64;
            assert!(have >= 3);
        }
    }

    // C27.votes_current (second half): a new candidacy starts without any vote of another node - votes and
    // pre-votes collected earlier are forgotten, so the majority counted by vote_received consists of votes
    // granted for the new term
    #[kani::proof]
    #[kani::unwind(5)]
    fn c27_election_forgets_earlier_votes() {
        let mut c = any_cluster();
        kani::assume(c.term < u64::MAX);
        let term_before = c.term;
        let requests = c.election();
        assert!(matches!(c.state, ClusterState::Candidate));
        assert!(c.term == term_before + 1);
        let me = c.index;
        assert!(c.nodes.iter().all(|n| n.index == me || !n.voted));
        assert!(requests.iter().all(|r| r.term == c.term && r.index == me && matches!(r.data, RequestType::Vote)));
    }

    // C27.single_vote + C28: responses keep the vote memory and the commit index (one harness per kind
    // of request that is being answered; the response itself is arbitrary)
    fn response_to(data: RequestType<u8>) {
        let mut c = any_cluster();
        let granted = any_granted();
        kani::assume(inv(&c, granted));
        let request = any_sent_request(&c, data);
        let response = any_response(&c);
        let commit_before = c.local().log_commit;
        let term_before = c.term;
        let _ = block_on(c.response(&request, &response));
        assert!(inv(&c, granted));
        assert!(c.local().log_commit >= commit_before);
        // C27.term_monotone
        assert!(c.term >= term_before);
    }

    #[kani::proof]
    #[kani::unwind(5)]
    fn c27_prevote_response_keeps_vote_memory() {
        response_to(RequestType::PreVote);
    }

    #[kani::proof]
    #[kani::unwind(5)]
    fn c27_vote_response_keeps_vote_memory() {
        response_to(RequestType::Vote);
    }

    #[kani::proof]
    #[kani::unwind(5)]
    fn c27_heartbeat_response_keeps_vote_memory() {
        response_to(RequestType::Heartbeat);
    }

    // C28.leader_commit_rule: the leader advances its commit index to i only when a majority of nodes
    // (itself included) is known to have log_index >= i
    #[kani::proof]
    #[kani::unwind(5)]
    fn c28_leader_commits_on_majority_only() {
        let mut c = any_cluster();
        kani::assume(matches!(c.state, ClusterState::Leader));
        let request = any_sent_request(&c, RequestType::Heartbeat);
        let response = Response { target: c.index, result: ResponseType::Ok };
        let commit_before = c.local().log_commit;
        let term_before = c.term;
        let _ = block_on(c.response(&request, &response));
        let commit_after = c.local().log_commit;
        assert!(commit_after >= commit_before);
        if commit_after > commit_before {
            let have = c.nodes.iter().filter(|n| n.log_index >= commit_after).count() as u64;
            assert!(have >= SIZE / 2 + 1);
        }
    }
}
