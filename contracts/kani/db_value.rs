// Kani harnesses appended to a scratch copy of agdb/src/db/db_value.rs.
#[cfg(kani)]
mod verif_kani {
    use super::*;
    use crate::storage::verif_kani_helper::recordless_storage;
    use crate::verif_stubs::*;

    // C12: inline scalars read back bit-for-bit (all 2^64 patterns, f64 by bits incl. NaN payloads, -0.0)
    #[kani::proof]
    #[kani::unwind(20)]
    #[kani::stub(core::panic::Location::caller, stub_caller)]
    #[kani::stub(alloc::fmt::format, stub_format)]
    fn c12_store_load_scalars() {
        let mut storage = recordless_storage();
        let bits: u64 = kani::any();
        let i = DbValue::I64(bits as i64).store_db_value(&mut storage).unwrap();
        match DbValue::load_db_value(i, &storage).unwrap() {
            DbValue::I64(v) => assert!(v == bits as i64),
            _ => assert!(false),
        }
        let i = DbValue::U64(bits).store_db_value(&mut storage).unwrap();
        match DbValue::load_db_value(i, &storage).unwrap() {
            DbValue::U64(v) => assert!(v == bits),
            _ => assert!(false),
        }
        let i = DbValue::F64(DbF64::from(f64::from_bits(bits))).store_db_value(&mut storage).unwrap();
        match DbValue::load_db_value(i, &storage).unwrap() {
            DbValue::F64(v) => assert!(v.to_f64().to_bits() == bits),
            _ => assert!(false),
        }
    }

    // C12: byte arrays of every inline length 0..=15 read back exactly (complete for the inline branch;
    // the length is a constant per call, the content is symbolic)
    fn inline_bytes(n: usize) {
        let mut storage = recordless_storage();
        let a: [u8; 15] = kani::any();
        let Ok(i) = DbValue::Bytes(a[..n].to_vec()).store_db_value(&mut storage) else {
            assert!(false);
            return;
        };
        assert!(i.is_value());
        match DbValue::load_db_value(i, &storage) {
            Ok(DbValue::Bytes(v)) => {
                assert!(v.len() == n);
                let mut k = 0;
                while k < n {
                    assert!(v[k] == a[k]);
                    k += 1;
                }
            }
            _ => assert!(false),
        }
    }

    #[kani::proof]
    #[kani::unwind(20)]
    #[kani::stub(core::panic::Location::caller, stub_caller)]
    #[kani::stub(alloc::fmt::format, stub_format)]
    fn c12_store_load_inline_bytes() {
        let mut n = 0;
        while n <= 15 {
            inline_bytes(n);
            n += 1;
        }
    }

    // C12: inline strings of length 0..=3 (ASCII content symbolic, length constant per call: bounded;
    // from_utf8_lossy over longer symbolic input does not finish)
    fn inline_string(n: usize) {
        let mut storage = recordless_storage();
        let a: [u8; 3] = kani::any();
        kani::assume(a[0] < 128 && a[1] < 128 && a[2] < 128);
        let Ok(s) = String::from_utf8(a[..n].to_vec()) else {
            return;
        };
        let Ok(i) = DbValue::String(s.clone()).store_db_value(&mut storage) else {
            assert!(false);
            return;
        };
        assert!(i.is_value());
        match DbValue::load_db_value(i, &storage) {
            Ok(DbValue::String(v)) => {
                assert!(v.len() == n);
                let mut k = 0;
                while k < n {
                    assert!(v.as_bytes()[k] == a[k]);
                    k += 1;
                }
            }
            _ => assert!(false),
        }
    }

    #[kani::proof]
    #[kani::unwind(20)]
    #[kani::stub(core::panic::Location::caller, stub_caller)]
    #[kani::stub(alloc::fmt::format, stub_format)]
    fn c12_store_load_inline_string_len3() {
        inline_string(0);
        inline_string(1);
        inline_string(2);
        inline_string(3);
    }

    // C07: load_db_value on an arbitrary 16-byte value index never panics.
    // Type and size nibble are CONSTANTS per call (so CBMC's symbolic execution only encodes one arm of
    // the dispatch); the other 15 bytes are symbolic.  All 16 x 16 nibble pairs are enumerated by
    // concrete loops, so together the harnesses cover all 2^128 indexes (string type: sizes 0..=4).
    fn load_with(t: u8, size: u8) {
        let storage = recordless_storage();
        let mut raw: [u8; 16] = kani::any();
        raw[15] = (t << 4) | size;
        // (no unwrap on Result<_, DbError>: the Debug formatting of the error dominates CBMC's time)
        if let Ok(idx) = DbValueIndex::deserialize(&raw) {
            let _ = DbValue::load_db_value(idx, &storage);
        }
    }

    fn load_all_sizes(t: u8, max_size: u8) {
        let mut size = 0_u8;
        while size <= max_size {
            load_with(t, size);
            size += 1;
        }
    }

    // one harness per scalar type (15 of the 16 sizes take the error path, whose Display-based
    // message construction is what costs CBMC time)
    #[kani::proof]
    #[kani::unwind(20)]
    #[kani::stub(core::panic::Location::caller, stub_caller)]
    #[kani::stub(alloc::fmt::format, stub_format)]
    fn c07_load_db_value_i64_type() {
        load_all_sizes(2, 15);
    }

    #[kani::proof]
    #[kani::unwind(20)]
    #[kani::stub(core::panic::Location::caller, stub_caller)]
    #[kani::stub(alloc::fmt::format, stub_format)]
    fn c07_load_db_value_u64_type() {
        load_all_sizes(3, 15);
    }

    #[kani::proof]
    #[kani::unwind(20)]
    #[kani::stub(core::panic::Location::caller, stub_caller)]
    #[kani::stub(alloc::fmt::format, stub_format)]
    fn c07_load_db_value_f64_type() {
        load_all_sizes(4, 15);
    }

    // type nibbles 0 and 10..15 are not value types
    #[kani::proof]
    #[kani::unwind(20)]
    #[kani::stub(core::panic::Location::caller, stub_caller)]
    #[kani::stub(alloc::fmt::format, stub_format)]
    fn c07_load_db_value_unknown_types() {
        load_all_sizes(0, 15);
        load_all_sizes(10, 15);
        load_all_sizes(11, 15);
        load_all_sizes(12, 15);
        load_all_sizes(13, 15);
        load_all_sizes(14, 15);
        load_all_sizes(15, 15);
    }

    // inline byte arrays of every size (size 0 with a non-zero index word is the stored branch:
    // the record-less storage answers `not found`)
    #[kani::proof]
    #[kani::unwind(20)]
    #[kani::stub(core::panic::Location::caller, stub_caller)]
    #[kani::stub(alloc::fmt::format, stub_format)]
    fn c07_load_db_value_bytes_type() {
        load_all_sizes(1, 15);
    }

    // the inline-string arm (from_utf8_lossy) and the stored branches (strings of 16+ bytes, all vector
    // types) are not repeated here: the latter contain no code of load_db_value itself besides the call
    // into Storage::value, whose panic-freedom is C21 (decoders) + the storage read path
}
