// Helper appended to a scratch copy of agdb/src/storage/storage_records.rs: an EMPTY record table
// (not even the sentinel slot 0), so that every lookup of a stored record is decided `not found`
// by constant propagation and CBMC never encodes the deserializers behind it.
#[cfg(kani)]
impl StorageRecords {
    pub(crate) fn verif_empty() -> Self {
        Self {
            records: Vec::new(),
            free_pos_size: BTreeMap::new(),
            free_size_pos: BTreeMap::new(),
            free_size: 0,
        }
    }
}
