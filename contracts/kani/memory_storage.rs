// Kani harnesses appended to a scratch copy of agdb/src/storage/memory_storage.rs.
#[cfg(kani)]
mod verif_kani {
    use super::*;

    // C06.memory.write: under the StorageData precondition (inside the data, or a pure append)
    // the buffer afterwards is write_at(old, pos, bytes).  Buffers up to 4 bytes, writes up to 2: bounded.
    #[kani::proof]
    #[kani::unwind(10)]
    fn c06_memory_write() {
        let init: [u8; 4] = kani::any();
        let n: usize = kani::any();
        kani::assume(n <= 4);
        let data: [u8; 2] = kani::any();
        let m: usize = kani::any();
        kani::assume(m <= 2);
        let pos: usize = kani::any();
        kani::assume(pos <= n && (pos + m <= n || pos == n));
        let mut s = MemoryStorage {
            buffer: init[..n].to_vec(),
            name: String::new(),
        };
        assert!(s.write(pos as u64, &data[..m]).is_ok());
        let new_len = if pos + m > n { pos + m } else { n };
        assert!(s.len() as usize == new_len);
        let mut i = 0;
        while i < new_len {
            let want = if i >= pos && i < pos + m { data[i - pos] } else { init[i] };
            assert!(s.buffer[i] == want);
            i += 1;
        }
    }

    // C06.memory.read / resize on the same bounded buffers (also proved unboundedly by Verus)
    #[kani::proof]
    #[kani::unwind(10)]
    fn c06_memory_read_resize() {
        let init: [u8; 4] = kani::any();
        let n: usize = kani::any();
        kani::assume(n <= 4);
        let mut s = MemoryStorage {
            buffer: init[..n].to_vec(),
            name: String::new(),
        };
        let pos: usize = kani::any();
        let len: usize = kani::any();
        kani::assume(pos <= n && len <= n - pos);
        let r = s.read(pos as u64, len as u64).unwrap();
        assert!(r.len() == len);
        let mut i = 0;
        while i < len {
            assert!(r[i] == init[pos + i]);
            i += 1;
        }
        drop(r);
        let new_len: usize = kani::any();
        kani::assume(new_len <= 6);
        assert!(s.resize(new_len as u64).is_ok());
        assert!(s.len() as usize == new_len);
        let mut i = 0;
        while i < new_len {
            assert!(s.buffer[i] == if i < n { init[i] } else { 0 });
            i += 1;
        }
    }
}
