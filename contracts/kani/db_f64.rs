// Harness appended to a scratch copy of agdb/src/db/db_f64.rs (C12: a stored float reads back bit for bit, so
// "equal" must mean "same bits": code that skips or merges work for equal values relies on it).
#[cfg(kani)]
mod verif_kani_f64 {
    use super::*;

    // loop-free over all 2^128 pairs of bit patterns: a complete proof
    #[kani::proof]
    fn c12_dbf64_equality_is_bit_equality() {
        let a: u64 = kani::any();
        let b: u64 = kani::any();
        let x = DbF64(f64::from_bits(a));
        let y = DbF64(f64::from_bits(b));
        assert!((x == y) == (a == b));
        assert!((x.cmp(&y) == Ordering::Equal) == (a == b));
    }
}
