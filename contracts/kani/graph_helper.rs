// Helper appended to a scratch copy of agdb/src/graph.rs: a 3-slot in-memory GraphData (slot 0 = free-list head /
// node count) and a constructor, so that Kani can run GraphImpl::iter / ElementSearch over symbolic slot arrays.
#[cfg(kani)]
pub(crate) mod verif_kani_graph {
    use super::*;
    use crate::storage::verif_kani_helper::NullData;

    pub const N: usize = 3;

    pub struct ArrData {
        pub f: [i64; N],
        pub t: [i64; N],
        pub fm: [i64; N],
        pub tm: [i64; N],
    }

    fn slot(index: GraphIndex) -> usize {
        index.0.unsigned_abs() as usize % N
    }

    impl GraphData<NullData> for ArrData {
        fn capacity(&self) -> Result<u64, DbError> {
            Ok(N as u64)
        }
        fn commit(&mut self, _storage: &mut Storage<NullData>, _id: u64) -> Result<(), DbError> {
            Ok(())
        }
        fn free_index(&self, _storage: &Storage<NullData>) -> Result<i64, DbError> {
            Ok(self.fm[0])
        }
        fn from(&self, _storage: &Storage<NullData>, index: GraphIndex) -> Result<i64, DbError> {
            Ok(self.f[slot(index)])
        }
        fn from_meta(&self, _storage: &Storage<NullData>, index: GraphIndex) -> Result<i64, DbError> {
            Ok(self.fm[slot(index)])
        }
        fn grow(&mut self, _storage: &mut Storage<NullData>) -> Result<(), DbError> {
            Ok(())
        }
        fn node_count(&self, _storage: &Storage<NullData>) -> Result<u64, DbError> {
            Ok(self.tm[0] as u64)
        }
        fn set_from(&mut self, _storage: &mut Storage<NullData>, index: GraphIndex, value: i64) -> Result<(), DbError> {
            self.f[slot(index)] = value;
            Ok(())
        }
        fn set_from_meta(&mut self, _storage: &mut Storage<NullData>, index: GraphIndex, value: i64) -> Result<(), DbError> {
            self.fm[slot(index)] = value;
            Ok(())
        }
        fn set_node_count(&mut self, _storage: &mut Storage<NullData>, count: u64) -> Result<(), DbError> {
            self.tm[0] = count as i64;
            Ok(())
        }
        fn set_to(&mut self, _storage: &mut Storage<NullData>, index: GraphIndex, value: i64) -> Result<(), DbError> {
            self.t[slot(index)] = value;
            Ok(())
        }
        fn set_to_meta(&mut self, _storage: &mut Storage<NullData>, index: GraphIndex, value: i64) -> Result<(), DbError> {
            self.tm[slot(index)] = value;
            Ok(())
        }
        fn shrink_to_fit(&mut self, _storage: &mut Storage<NullData>) -> Result<(), DbError> {
            Ok(())
        }
        fn to(&self, _storage: &Storage<NullData>, index: GraphIndex) -> Result<i64, DbError> {
            Ok(self.t[slot(index)])
        }
        fn to_meta(&self, _storage: &Storage<NullData>, index: GraphIndex) -> Result<i64, DbError> {
            Ok(self.tm[slot(index)])
        }
        fn transaction(&mut self, _storage: &mut Storage<NullData>) -> u64 {
            0
        }
    }

    pub fn graph_over(data: ArrData) -> GraphImpl<NullData, ArrData> {
        GraphImpl {
            data,
            storage: PhantomData,
        }
    }
}
