// Kani harnesses appended to a scratch copy of agdb/src/db/db_value_index.rs.
#[cfg(kani)]
mod verif_kani {
    use super::*;
    use crate::verif_stubs::*;

    // C12: after set_type(t); set_value(b) with |b| <= 15: type, bytes and is_value() read back exactly
    #[kani::proof]
    #[kani::unwind(20)]
    fn c12_vindex_type_value_algebra() {
        let mut idx = DbValueIndex { value: kani::any() };
        let t: u8 = kani::any();
        kani::assume(t < 16);
        let a: [u8; 16] = kani::any();
        let n: usize = kani::any();
        kani::assume(n <= 16);
        idx.set_type(t);
        let ok = idx.set_value(&a[..n]);
        if n <= 15 {
            assert!(ok);
            assert!(idx.get_type() == t);
            assert!(idx.size() as usize == n);
            assert!(idx.value() == &a[..n]);
            // an inline value of length 0 is only recognised as a value when bytes 0..8 are zero
            assert!(idx.is_value() == (n != 0 || idx.index() == 0));
            if n > 0 {
                assert!(idx.is_value());
            }
        } else {
            assert!(!ok);
        }
    }

    // C12: set_index(i), i != 0: stored branch is recognised, index reads back, type unchanged
    #[kani::proof]
    #[kani::unwind(20)]
    fn c12_vindex_index_algebra() {
        let mut idx = DbValueIndex { value: kani::any() };
        let t: u8 = kani::any();
        kani::assume(t < 16);
        idx.set_type(t);
        let i: u64 = kani::any();
        idx.set_index(i);
        assert!(idx.index() == i);
        assert!(idx.get_type() == t);
        assert!(idx.size() == 0);
        assert!(idx.is_value() == (i == 0));
    }

    // C12: set_type does not disturb an inline value
    #[kani::proof]
    #[kani::unwind(20)]
    fn c12_vindex_set_type_frame() {
        let mut idx = DbValueIndex { value: kani::any() };
        let before = idx;
        let t: u8 = kani::any();
        kani::assume(t < 16);
        idx.set_type(t);
        assert!(idx.get_type() == t);
        assert!(idx.size() == before.size());
        assert!(idx.value() == before.value());
        assert!(idx.index() == before.index());
    }

    // C20: round trip + exact size, full domain
    #[kani::proof]
    #[kani::unwind(20)]
    #[kani::stub(core::panic::Location::caller, stub_caller)]
    #[kani::stub(alloc::fmt::format, stub_format)]
    fn c20_vindex_roundtrip() {
        let idx = DbValueIndex { value: kani::any() };
        let b = idx.serialize();
        assert!(b.len() as u64 == idx.serialized_size());
        assert!(DbValueIndex::deserialize(&b).unwrap() == idx);
    }

    // C21 / C07: arbitrary bytes
    #[kani::proof]
    #[kani::unwind(20)]
    #[kani::stub(core::panic::Location::caller, stub_caller)]
    #[kani::stub(alloc::fmt::format, stub_format)]
    fn c21_vindex_no_panic() {
        let a: [u8; 18] = kani::any();
        let n: usize = kani::any();
        kani::assume(n <= 18);
        let _ = DbValueIndex::deserialize(&a[..n]);
    }
}
