// Kani harnesses appended to a scratch copy of agdb/src/query/query_condition.rs.
#[cfg(kani)]
mod verif_kani {
    use super::*;
    use crate::db::db_f64::DbF64;

    fn any_count() -> (CountComparison, u8, u64) {
        let k: u8 = kani::any();
        kani::assume(k < 6);
        let v: u64 = kani::any();
        (
            match k {
                0 => CountComparison::Equal(v),
                1 => CountComparison::GreaterThan(v),
                2 => CountComparison::GreaterThanOrEqual(v),
                3 => CountComparison::LessThan(v),
                4 => CountComparison::LessThanOrEqual(v),
                _ => CountComparison::NotEqual(v),
            },
            k,
            v,
        )
    }

    fn holds(k: u8, x: u64, v: u64) -> bool {
        match k {
            0 => x == v,
            1 => x > v,
            2 => x >= v,
            3 => x < v,
            4 => x <= v,
            _ => x != v,
        }
    }

    // C15: numeric comparison of edge counts, full u64 x u64 x 6 variants
    #[kani::proof]
    fn c15_count_compare() {
        let (c, k, v) = any_count();
        let x: u64 = kani::any();
        assert!(c.compare(x) == holds(k, x, v));
    }

    // C15: distance comparison: selection == the numeric comparison; the search stops beyond the
    // element exactly when no larger distance can satisfy the comparison any more
    #[kani::proof]
    fn c15_count_compare_distance() {
        let (c, k, v) = any_count();
        let d: u64 = kani::any();
        let r = c.compare_distance(d);
        assert!(r.is_true() == holds(k, d, v));
        let stop = matches!(r, SearchControl::Stop(_));
        let no_larger_can_hold = match k {
            0 => d >= v,
            3 => d >= v,
            4 => d > v,
            _ => false,
        };
        assert!(stop == no_larger_can_hold);
        assert!(!matches!(r, SearchControl::Finish(_)));
    }

    // `tag` is a concrete constant at every call site
    fn any_scalar(tag: u8) -> DbValue {
        match tag {
            0 => DbValue::I64(kani::any()),
            1 => DbValue::U64(kani::any()),
            _ => DbValue::F64(DbF64::from(f64::from_bits(kani::any()))),
        }
    }

    fn check_pair(left: DbValue, right: DbValue, same_type: bool) {
        let k: u8 = kani::any();
        kani::assume(k < 5);
        let c = match k {
            0 => Comparison::Equal(right),
            1 => Comparison::GreaterThan(right),
            2 => Comparison::GreaterThanOrEqual(right),
            3 => Comparison::LessThan(right),
            _ => Comparison::LessThanOrEqual(right),
        };
        if c.compare(&left) {
            assert!(same_type);
        }
    }

    // C15: type-strict comparisons on the scalar types (all 2^64 x 2^64 values per pair of types; the
    // nine type pairs are enumerated concretely so that CBMC only encodes the arms involved): Equal and
    // the four ordering comparisons hold only between values of the same type
    #[kani::proof]
    #[kani::unwind(4)]
    fn c15_compare_type_strict_scalars() {
        let mut lt = 0_u8;
        while lt < 3 {
            let mut rt = 0_u8;
            while rt < 3 {
                check_pair(any_scalar(lt), any_scalar(rt), lt == rt);
                rt += 1;
            }
            lt += 1;
        }
    }

    // C15: same, with a heap type on one side (strings/vectors of length <= 1: bounded)
    #[kani::proof]
    #[kani::unwind(4)]
    fn c15_compare_type_strict_mixed() {
        let mut lt = 0_u8;
        while lt < 3 {
            check_pair(any_scalar(lt), DbValue::Bytes(vec![kani::any()]), false);
            check_pair(DbValue::Bytes(vec![kani::any()]), any_scalar(lt), false);
            check_pair(any_scalar(lt), DbValue::String(String::new()), false);
            check_pair(DbValue::String(String::new()), any_scalar(lt), false);
            check_pair(any_scalar(lt), DbValue::VecI64(vec![kani::any()]), false);
            check_pair(DbValue::VecU64(vec![]), any_scalar(lt), false);
            lt += 1;
        }
    }

    // ---- instances of the derive(DbSerialize) expansion (an enum with payloads, a tuple struct):
    // C21 arbitrary bytes never panic, C20 round trip + exact size.  These decide the generated code
    // for THESE types only; the macro itself (all user types) is out of reach (C22 n/a).
    #[kani::proof]
    #[kani::unwind(20)]
    #[kani::stub(core::panic::Location::caller, crate::verif_stubs::stub_caller)]
    #[kani::stub(alloc::fmt::format, crate::verif_stubs::stub_format)]
    fn c21_derived_enum_and_struct_no_panic() {
        use crate::utilities::serialize::Serialize;
        let a: [u8; 10] = kani::any();
        let n: usize = kani::any();
        kani::assume(n <= 10);
        let _ = CountComparison::deserialize(&a[..n]);
        let _ = crate::DbId::deserialize(&a[..n]);
        let _ = QueryConditionLogic::deserialize(&a[..n]);
        let _ = QueryConditionModifier::deserialize(&a[..n]);
    }

    #[kani::proof]
    #[kani::unwind(20)]
    #[kani::stub(core::panic::Location::caller, crate::verif_stubs::stub_caller)]
    #[kani::stub(alloc::fmt::format, crate::verif_stubs::stub_format)]
    fn c20_derived_enum_and_struct_roundtrip() {
        use crate::utilities::serialize::Serialize;
        let (c, _k, _v) = any_count();
        let b = c.serialize();
        assert!(b.len() as u64 == c.serialized_size());
        assert!(CountComparison::deserialize(&b).unwrap() == c);
        let id = crate::DbId(kani::any());
        let b = id.serialize();
        assert!(b.len() as u64 == id.serialized_size());
        assert!(crate::DbId::deserialize(&b).unwrap() == id);
    }
}
