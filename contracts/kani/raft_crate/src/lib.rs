// Harness crate for agdb_server/src/raft.rs (C27, C28).  raft.rs itself is copied from /repo on every
// run (tools/kani_run.py) with two textual substitutions: the clock and the path of DbId.
#![allow(dead_code)]
#![allow(unused_imports)]

// T8: stand-ins for the two items raft.rs imports from the rest of the server / from agdb
pub(crate) mod server_error {
    pub(crate) struct ServerError {
        pub(crate) description: String,
    }
    pub(crate) type ServerResult<T = ()> = Result<T, ServerError>;
}

pub(crate) mod agdb {
    #[derive(Debug, Clone, Copy, PartialEq)]
    pub struct DbId(pub i64);
}

// R4: virtual clock.  `elapsed()` is an arbitrary duration at every call: the property quantifies over
// "any timer expirations", so every timer comparison can go either way.
pub(crate) mod clock {
    use std::time::Duration;

    #[derive(Debug, Clone, Copy)]
    pub struct Instant;

    impl Instant {
        pub fn now() -> Self {
            Instant
        }

        pub fn elapsed(&self) -> Duration {
            #[cfg(kani)]
            {
                Duration::from_millis(kani::any())
            }
            #[cfg(not(kani))]
            {
                Duration::from_millis(0)
            }
        }
    }
}

pub(crate) mod raft;
