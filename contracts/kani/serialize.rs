// Kani harnesses appended to a scratch copy of agdb/src/utilities/serialize.rs (never to /repo).
#[cfg(kani)]
mod verif_kani {
    use super::*;
    use crate::verif_stubs::*;

    // ---------------------------------------------------------------- C20 fixed-width: proof
    #[kani::proof]
    #[kani::unwind(20)]
    #[kani::stub(core::panic::Location::caller, stub_caller)]
    fn c20_u64_roundtrip() {
        let x: u64 = kani::any();
        let b = x.serialize();
        assert!(b.len() as u64 == x.serialized_size());
        assert!(u64::deserialize(&b).unwrap() == x);
    }

    #[kani::proof]
    #[kani::unwind(20)]
    #[kani::stub(core::panic::Location::caller, stub_caller)]
    fn c20_i64_roundtrip() {
        let x: i64 = kani::any();
        let b = x.serialize();
        assert!(b.len() as u64 == x.serialized_size());
        assert!(i64::deserialize(&b).unwrap() == x);
    }

    #[kani::proof]
    #[kani::unwind(20)]
    #[kani::stub(core::panic::Location::caller, stub_caller)]
    fn c20_f64_roundtrip_bits() {
        let bits: u64 = kani::any();
        let x = f64::from_bits(bits);
        let b = x.serialize();
        assert!(b.len() as u64 == x.serialized_size());
        assert!(f64::deserialize(&b).unwrap().to_bits() == bits);
    }

    #[kani::proof]
    #[kani::unwind(20)]
    #[kani::stub(core::panic::Location::caller, stub_caller)]
    fn c20_usize_roundtrip() {
        let x: usize = kani::any();
        let b = x.serialize();
        assert!(b.len() as u64 == x.serialized_size());
        assert!(usize::deserialize(&b).unwrap() == x);
    }

    #[kani::proof]
    #[kani::unwind(20)]
    #[kani::stub(core::panic::Location::caller, stub_caller)]
    fn c20_bool_roundtrip() {
        let x: bool = kani::any();
        let b = x.serialize();
        assert!(b.len() as u64 == x.serialized_size());
        assert!(bool::deserialize(&b).unwrap() == x);
    }

    #[kani::proof]
    #[kani::unwind(20)]
    #[kani::stub(core::panic::Location::caller, stub_caller)]
    fn c20_systemtime_roundtrip() {
        let secs: u64 = kani::any();
        let nanos: u32 = kani::any();
        let before: bool = kani::any();
        kani::assume(nanos < 1_000_000_000);
        let d = Duration::new(secs, nanos);
        let t = if before { UNIX_EPOCH.checked_sub(d) } else { UNIX_EPOCH.checked_add(d) };
        if let Some(t) = t {
            let b = t.serialize();
            assert!(b.len() as u64 == t.serialized_size());
            assert!(SystemTime::deserialize(&b).unwrap() == t);
        }
    }

    // ---------------------------------------------------------------- C20 containers: bounded
    // (lengths are enumerated concretely; no unwrap() on Result<_, DbError>: formatting the error for the
    //  panic message dominates CBMC's time)
    fn roundtrip_vec_u8(v: Vec<u8>) {
        let b = v.serialize();
        assert!(b.len() as u64 == v.serialized_size());
        match Vec::<u8>::deserialize(&b) {
            Ok(d) => {
                assert!(d.len() == v.len());
                let mut i = 0;
                while i < v.len() {
                    assert!(d[i] == v[i]);
                    i += 1;
                }
            }
            Err(_) => assert!(false),
        }
    }

    #[kani::proof]
    #[kani::unwind(20)]
    #[kani::stub(core::panic::Location::caller, stub_caller)]
    fn c20_vec_u8_roundtrip_len3() {
        roundtrip_vec_u8(vec![]);
        roundtrip_vec_u8(vec![kani::any()]);
        roundtrip_vec_u8(vec![kani::any(), kani::any()]);
        roundtrip_vec_u8(vec![kani::any(), kani::any(), kani::any()]);
    }

    fn roundtrip_vec_u64(v: Vec<u64>) {
        let b = v.serialize();
        assert!(b.len() as u64 == v.serialized_size());
        match Vec::<u64>::deserialize(&b) {
            Ok(d) => {
                assert!(d.len() == v.len());
                let mut i = 0;
                while i < v.len() {
                    assert!(d[i] == v[i]);
                    i += 1;
                }
            }
            Err(_) => assert!(false),
        }
    }

    #[kani::proof]
    #[kani::unwind(20)]
    #[kani::stub(core::panic::Location::caller, stub_caller)]
    #[kani::stub(alloc::fmt::format, stub_format)]
    fn c20_vec_u64_roundtrip_len2() {
        roundtrip_vec_u64(vec![]);
        roundtrip_vec_u64(vec![kani::any()]);
        roundtrip_vec_u64(vec![kani::any(), kani::any()]);
    }

    // strings built from arbitrary `char`s (1..4 bytes each: the number of chars differs from the number
    // of bytes); std's UTF-8 validation in the decoder is stubbed to accept (the input is valid by
    // construction), everything else is the real code
    fn roundtrip_string(s: String) {
        let b = s.serialize();
        assert!(b.len() as u64 == s.serialized_size());
        match String::deserialize(&b) {
            Ok(d) => assert!(d.as_bytes() == s.as_bytes()),
            Err(_) => assert!(false),
        }
    }

    // one arbitrary char of each UTF-8 length class (the byte length is a constant per call)
    fn one_char(len: usize) {
        let c: char = kani::any();
        kani::assume(c.len_utf8() == len);
        let s = String::from(c);
        let b = s.serialize();
        assert!(b.len() as u64 == s.serialized_size());
        assert!(b.len() == 8 + len);
        match String::deserialize(&b) {
            Ok(d) => {
                assert!(d.len() == len);
                let mut i = 0;
                while i < len {
                    assert!(d.as_bytes()[i] == s.as_bytes()[i]);
                    i += 1;
                }
            }
            Err(_) => assert!(false),
        }
    }

    // an element type that serializes to ZERO bytes (what a derived unit struct does): a Vec of such elements ends
    // exactly at the end of the buffer, so the decoder must accept an empty rest for each element
    struct ZeroSized;
    impl Serialize for ZeroSized {
        fn serialize(&self) -> Vec<u8> { vec![] }
        fn deserialize(_bytes: &[u8]) -> Result<Self, DbError> { Ok(ZeroSized) }
        fn serialized_size(&self) -> u64 { 0 }
    }
    fn roundtrip_vec_zero(v: Vec<ZeroSized>) {
        let b = v.serialize();
        assert!(b.len() as u64 == v.serialized_size());
        match Vec::<ZeroSized>::deserialize(&b) {
            Ok(d) => assert!(d.len() == v.len()),
            Err(_) => assert!(false),
        }
    }

    #[kani::proof]
    #[kani::unwind(20)]
    #[kani::stub(core::panic::Location::caller, stub_caller)]
    #[kani::stub(alloc::fmt::format, stub_format)]
    fn c20_vec_zero_size_elements_roundtrip() {
        roundtrip_vec_zero(vec![]);
        roundtrip_vec_zero(vec![ZeroSized]);
        roundtrip_vec_zero(vec![ZeroSized, ZeroSized]);
    }

    // the reported size of a string counts BYTES: one arbitrary char of each multi-byte length class
    // (encoding side only - no decoder, so no UTF-8 validation in the way)
    fn one_char_size(len: usize) {
        let c: char = kani::any();
        kani::assume(c.len_utf8() == len);
        let s = String::from(c);
        assert!(s.len() == len);
        assert!(s.serialized_size() == 8 + len as u64);
        assert!(s.serialize().len() as u64 == s.serialized_size());
    }

    #[kani::proof]
    #[kani::unwind(20)]
    fn c20_string_size_counts_bytes() {
        one_char_size(2);
        one_char_size(3);
        one_char_size(4);
    }

    #[kani::proof]
    #[kani::unwind(20)]
    #[kani::stub(core::panic::Location::caller, stub_caller)]
    #[kani::stub(core::str::from_utf8, stub_from_utf8_valid)]
    fn c20_string_roundtrip_chars2() {
        roundtrip_string(String::new());
        one_char(1);
        one_char(2);
        one_char(3);
        one_char(4);
    }

    // ---------------------------------------------------------------- C21 / C07: arbitrary bytes never panic
    #[kani::proof]
    #[kani::unwind(20)]
    #[kani::stub(core::panic::Location::caller, stub_caller)]
    fn c21_fixed_width_no_panic() {
        let a: [u8; 10] = kani::any();
        let n: usize = kani::any();
        kani::assume(n <= 10);
        let _ = u64::deserialize(&a[..n]);
        let _ = i64::deserialize(&a[..n]);
        let _ = f64::deserialize(&a[..n]);
        let _ = usize::deserialize(&a[..n]);
        let _ = bool::deserialize(&a[..n]);
    }

    #[kani::proof]
    #[kani::unwind(20)]
    #[kani::stub(core::panic::Location::caller, stub_caller)]
    #[kani::stub(alloc::fmt::format, stub_format)]
    fn c21_systemtime_no_panic() {
        let a: [u8; 14] = kani::any();
        let n: usize = kani::any();
        kani::assume(n <= 14);
        let _ = SystemTime::deserialize(&a[..n]);
    }

    #[kani::proof]
    #[kani::unwind(26)]
    #[kani::stub(core::panic::Location::caller, stub_caller)]
    fn c21_vec_u8_no_panic() {
        let a: [u8; 24] = kani::any();
        let n: usize = kani::any();
        kani::assume(n <= 24);
        let _ = Vec::<u8>::deserialize(&a[..n]);
    }

    // UTF-8 validation (std) is stubbed by a non-deterministic, panic-free stand-in: what is decided
    // is the decoder's own arithmetic and slicing
    #[kani::proof]
    #[kani::unwind(30)]
    #[kani::stub(core::panic::Location::caller, stub_caller)]
    #[kani::stub(core::str::from_utf8, stub_from_utf8)]
    fn c21_string_no_panic() {
        let a: [u8; 24] = kani::any();
        let n: usize = kani::any();
        kani::assume(n <= 24);
        let _ = String::deserialize(&a[..n]);
    }

    #[kani::proof]
    #[kani::unwind(20)]
    #[kani::stub(core::panic::Location::caller, stub_caller)]
    #[kani::stub(alloc::fmt::format, stub_format)]
    fn c21_vec_u64_no_panic() {
        let a: [u8; 24] = kani::any();
        let n: usize = kani::any();
        kani::assume(n <= 24);
        let _ = Vec::<u64>::deserialize(&a[..n]);
    }
}
