// Kani harnesses appended to a scratch copy of agdb/src/utilities/serialize.rs (never to /repo).
#[cfg(kani)]
mod verif_kani {
    use super::*;
    use crate::verif_stubs::*;

    // ---------------------------------------------------------------- C20 fixed-width: proof
    #[kani::proof]
    #[kani::unwind(20)]
    #[kani::stub(core::panic::Location::caller, stub_caller)]
    fn c20_u64_roundtrip() {
        let x: u64 = kani::any();
        let b = x.serialize();
        assert!(b.len() as u64 == x.serialized_size());
        assert!(u64::deserialize(&b).unwrap() == x);
    }

    #[kani::proof]
    #[kani::unwind(20)]
    #[kani::stub(core::panic::Location::caller, stub_caller)]
    fn c20_i64_roundtrip() {
        let x: i64 = kani::any();
        let b = x.serialize();
        assert!(b.len() as u64 == x.serialized_size());
        assert!(i64::deserialize(&b).unwrap() == x);
    }

    #[kani::proof]
    #[kani::unwind(20)]
    #[kani::stub(core::panic::Location::caller, stub_caller)]
    fn c20_f64_roundtrip_bits() {
        let bits: u64 = kani::any();
        let x = f64::from_bits(bits);
        let b = x.serialize();
        assert!(b.len() as u64 == x.serialized_size());
        assert!(f64::deserialize(&b).unwrap().to_bits() == bits);
    }

    #[kani::proof]
    #[kani::unwind(20)]
    #[kani::stub(core::panic::Location::caller, stub_caller)]
    fn c20_usize_roundtrip() {
        let x: usize = kani::any();
        let b = x.serialize();
        assert!(b.len() as u64 == x.serialized_size());
        assert!(usize::deserialize(&b).unwrap() == x);
    }

    #[kani::proof]
    #[kani::unwind(20)]
    #[kani::stub(core::panic::Location::caller, stub_caller)]
    fn c20_bool_roundtrip() {
        let x: bool = kani::any();
        let b = x.serialize();
        assert!(b.len() as u64 == x.serialized_size());
        assert!(bool::deserialize(&b).unwrap() == x);
    }

    #[kani::proof]
    #[kani::unwind(20)]
    #[kani::stub(core::panic::Location::caller, stub_caller)]
    fn c20_systemtime_roundtrip() {
        let secs: u64 = kani::any();
        let nanos: u32 = kani::any();
        let before: bool = kani::any();
        kani::assume(nanos < 1_000_000_000);
        let d = Duration::new(secs, nanos);
        let t = if before { UNIX_EPOCH.checked_sub(d) } else { UNIX_EPOCH.checked_add(d) };
        if let Some(t) = t {
            let b = t.serialize();
            assert!(b.len() as u64 == t.serialized_size());
            assert!(SystemTime::deserialize(&b).unwrap() == t);
        }
    }

    // ---------------------------------------------------------------- C20 containers: bounded
    #[kani::proof]
    #[kani::unwind(20)]
    #[kani::stub(core::panic::Location::caller, stub_caller)]
    fn c20_vec_u8_roundtrip_len4() {
        let a: [u8; 4] = kani::any();
        let n: usize = kani::any();
        kani::assume(n <= 4);
        let v = a[..n].to_vec();
        let b = v.serialize();
        assert!(b.len() as u64 == v.serialized_size());
        assert!(Vec::<u8>::deserialize(&b).unwrap() == v);
    }

    #[kani::proof]
    #[kani::unwind(20)]
    #[kani::stub(core::panic::Location::caller, stub_caller)]
    fn c20_vec_u64_roundtrip_len2() {
        let a: [u64; 2] = kani::any();
        let n: usize = kani::any();
        kani::assume(n <= 2);
        let v = a[..n].to_vec();
        let b = v.serialize();
        assert!(b.len() as u64 == v.serialized_size());
        assert!(Vec::<u64>::deserialize(&b).unwrap() == v);
    }

    #[kani::proof]
    #[kani::unwind(20)]
    #[kani::stub(core::panic::Location::caller, stub_caller)]
    fn c20_string_roundtrip_ascii_len3() {
        let a: [u8; 3] = kani::any();
        let n: usize = kani::any();
        kani::assume(n <= 3);
        kani::assume(a[0] < 128 && a[1] < 128 && a[2] < 128);
        let s = String::from_utf8(a[..n].to_vec()).unwrap();
        let b = s.serialize();
        assert!(b.len() as u64 == s.serialized_size());
        assert!(String::deserialize(&b).unwrap() == s);
    }

    // ---------------------------------------------------------------- C21 / C07: arbitrary bytes never panic
    #[kani::proof]
    #[kani::unwind(20)]
    #[kani::stub(core::panic::Location::caller, stub_caller)]
    fn c21_fixed_width_no_panic() {
        let a: [u8; 10] = kani::any();
        let n: usize = kani::any();
        kani::assume(n <= 10);
        let _ = u64::deserialize(&a[..n]);
        let _ = i64::deserialize(&a[..n]);
        let _ = f64::deserialize(&a[..n]);
        let _ = usize::deserialize(&a[..n]);
        let _ = bool::deserialize(&a[..n]);
    }

    #[kani::proof]
    #[kani::unwind(20)]
    #[kani::stub(core::panic::Location::caller, stub_caller)]
    #[kani::stub(alloc::fmt::format, stub_format)]
    fn c21_systemtime_no_panic() {
        let a: [u8; 14] = kani::any();
        let n: usize = kani::any();
        kani::assume(n <= 14);
        let _ = SystemTime::deserialize(&a[..n]);
    }

    #[kani::proof]
    #[kani::unwind(26)]
    #[kani::stub(core::panic::Location::caller, stub_caller)]
    fn c21_vec_u8_no_panic() {
        let a: [u8; 24] = kani::any();
        let n: usize = kani::any();
        kani::assume(n <= 24);
        let _ = Vec::<u8>::deserialize(&a[..n]);
    }

    // UTF-8 validation (std) is stubbed by a non-deterministic, panic-free stand-in: what is decided
    // is the decoder's own arithmetic and slicing
    #[kani::proof]
    #[kani::unwind(30)]
    #[kani::stub(core::panic::Location::caller, stub_caller)]
    #[kani::stub(core::str::from_utf8, stub_from_utf8)]
    fn c21_string_no_panic() {
        let a: [u8; 24] = kani::any();
        let n: usize = kani::any();
        kani::assume(n <= 24);
        let _ = String::deserialize(&a[..n]);
    }

    #[kani::proof]
    #[kani::unwind(20)]
    #[kani::stub(core::panic::Location::caller, stub_caller)]
    #[kani::stub(alloc::fmt::format, stub_format)]
    fn c21_vec_u64_no_panic() {
        let a: [u8; 24] = kani::any();
        let n: usize = kani::any();
        kani::assume(n <= 24);
        let _ = Vec::<u64>::deserialize(&a[..n]);
    }
}
