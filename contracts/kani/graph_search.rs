// Kani harnesses appended to a scratch copy of agdb/src/graph_search.rs.
#[cfg(kani)]
mod verif_kani {
    use super::*;

    fn any_control() -> SearchControl {
        let k: u8 = kani::any();
        kani::assume(k < 3);
        let b: bool = kani::any();
        match k {
            0 => SearchControl::Continue(b),
            1 => SearchControl::Stop(b),
            _ => SearchControl::Finish(b),
        }
    }

    // rank in the documented truth tables: Continue < Stop < Finish
    fn rank(c: SearchControl) -> u8 {
        match c {
            SearchControl::Continue(_) => 0,
            SearchControl::Stop(_) => 1,
            SearchControl::Finish(_) => 2,
        }
    }

    fn with_rank(r: u8, v: bool) -> SearchControl {
        match r {
            0 => SearchControl::Continue(v),
            1 => SearchControl::Stop(v),
            _ => SearchControl::Finish(v),
        }
    }

    // C15: "And" table of agdb_web/content/docs/03.references/01.queries.md (symmetric closure):
    // the stronger control wins, booleans are and-ed.
    #[kani::proof]
    fn c15_control_and_truth_table() {
        let l = any_control();
        let r = any_control();
        let want = with_rank(core::cmp::max(rank(l), rank(r)), l.is_true() && r.is_true());
        assert!(l.and(r) == want);
    }

    // C15: "Or" table: the weaker control wins, booleans are or-ed.
    #[kani::proof]
    fn c15_control_or_truth_table() {
        let l = any_control();
        let r = any_control();
        let want = with_rank(core::cmp::min(rank(l), rank(r)), l.is_true() || r.is_true());
        assert!(l.or(r) == want);
    }

    // C15: Not modifier = flip: keeps the control kind, negates the selection; set_value keeps the kind
    #[kani::proof]
    fn c15_control_flip_set_value() {
        let c = any_control();
        let mut f = c;
        f.flip();
        assert!(rank(f) == rank(c) && f.is_true() == !c.is_true());
        let v: bool = kani::any();
        let mut s = c;
        s.set_value(v);
        assert!(rank(s) == rank(c) && s.is_true() == v);
    }
}
