// Helper appended to a scratch copy of agdb/src/storage.rs: a record-less Storage over a null
// back-end, so that DbValue::{load,store}_db_value can be called by Kani without executing the
// BTreeMap-based constructors (every access to a stored record returns Err).
#[cfg(kani)]
pub(crate) mod verif_kani_helper {
    use super::*;

    pub struct NullData;

    impl StorageData for NullData {
        fn backup(&self, _name: &str) -> Result<(), DbError> {
            Ok(())
        }
        fn copy(&self, _name: &str) -> Result<Self, DbError> {
            Ok(NullData)
        }
        fn len(&self) -> u64 {
            0
        }
        fn name(&self) -> &str {
            ""
        }
        fn new(_name: &str) -> Result<Self, DbError> {
            Ok(NullData)
        }
        fn read(&'_ self, _pos: u64, _value_len: u64) -> Result<StorageSlice<'_>, DbError> {
            Ok(StorageSlice::Owned(vec![]))
        }
        fn rename(&mut self, _new_name: &str) -> Result<(), DbError> {
            Ok(())
        }
        fn resize(&mut self, _new_len: u64) -> Result<(), DbError> {
            Ok(())
        }
        fn write(&mut self, _pos: u64, _bytes: &[u8]) -> Result<(), DbError> {
            Ok(())
        }
    }

    pub fn recordless_storage() -> Storage<NullData> {
        Storage {
            data: NullData,
            records: StorageRecords::verif_empty(),
            transactions: 0,
            version: CURRENT_VERSION,
        }
    }
}
